//! C12, coverage-guided: any text is compiled or rejected without a panic, and compiling it a
//! second time in a brand-new scope gives the same verdict and the same rendered error.
#![no_main]
use libfuzzer_sys::fuzz_target;
use xray::root_compilation_scope::RootCompilationScope;

type Scope = RootCompilationScope<Vec<u8>, rand::rngs::StdRng, xray::time_provider::SystemTimeProvider>;

fn compile(text: &str) -> Result<(), String> {
    // an empty scope (no library): the parser and the checker are what is fuzzed, and a
    // compilation takes microseconds
    let mut scope: Scope = RootCompilationScope::new();
    scope.feed_file(text).map_err(|e| format!("{e}"))
}

fuzz_target!(|data: &[u8]| {
    let Ok(text) = std::str::from_utf8(data) else { return };
    let a = compile(text);
    let b = compile(text);
    assert_eq!(a, b, "two compilations of one text differ");
});
