#!/usr/bin/env python3
"""Append an entry to /verif/known_findings.json (used while building; never at check time).

usage: mkfinding.py ID PROPERTY STATUS TITLE --body BODY --ret TYPE --expect JSON
                    [--commit HASH] [--kind K] [--key k=v ...] [--exclude tag ...] [--prelude SRC]
                    [--src FULLSRC --step-expect IDX JSON ...]
"""
import argparse, json, sys
ap = argparse.ArgumentParser()
ap.add_argument('id'); ap.add_argument('property'); ap.add_argument('status'); ap.add_argument('title')
ap.add_argument('--body'); ap.add_argument('--ret'); ap.add_argument('--expect')
ap.add_argument('--prelude', default='')
ap.add_argument('--commit'); ap.add_argument('--kind', default='')
ap.add_argument('--key', action='append', default=[]); ap.add_argument('--exclude', action='append', default=[])
ap.add_argument('--limits', default='{}')
ap.add_argument('--direct')
a = ap.parse_args()
path = '/verif/known_findings.json'
try:
    doc = json.load(open(path))
except FileNotFoundError:
    doc = {"findings": []}
if a.direct:
    repro = json.loads(a.direct)
else:
    src = (a.prelude + "\n" if a.prelude else "") + "fn c0() -> %s {\n  %s\n}\n" % (a.ret, a.body)
    job = {"srcs": [src], "limits": json.loads(a.limits),
           "steps": [{"op": "compile", "src": 0}, {"op": "instantiate"}, {"op": "run", "name": "c0"}],
           "keep_going": True, "cpu_s": 20}
    repro = {"form": "expect", "job": job, "expects": [[2, json.loads(a.expect)]]}
entry = {"id": a.id, "property": a.property, "status": a.status, "title": a.title}
if a.commit: entry["commit"] = a.commit
entry["match"] = {"kind": a.kind, "keys": dict(k.split('=', 1) for k in a.key)}
entry["exclude"] = a.exclude
entry["repro"] = repro
doc["findings"] = [f for f in doc["findings"] if f["id"] != a.id] + [entry]
if a.status == 'fixed':
    entry["record"] = "fixed: property=%s %s %s" % (a.property, a.commit, a.title)
json.dump(doc, open(path, 'w'), indent=1, ensure_ascii=False)
print("recorded", a.id)
