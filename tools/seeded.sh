#!/bin/bash
# usage: tools/seeded.sh ID [check-ID ...]  — apply each sub-agent-produced breaking change of
# /verif/seeded/ID to /repo, run the quick check(s) (default: the property's own), expect exit 1.
cd /verif || exit 2
export XV_EVIDENCE_DIR=${XV_EVIDENCE_DIR:-/tmp/xv_ev}   # keep runs against broken trees out of /verif/evidence
id=$1; shift; checks=${@:-$id}
if [ -n "$(git -C /repo status --porcelain)" ]; then echo "/repo is dirty"; exit 2; fi
for d in seeded/$id/m*/; do
  if ! git -C /repo apply "/verif/$d/patch.diff" 2>/dev/null; then echo "SKIP (does not apply) $d"; continue; fi
  for c in $checks; do
    out=$(./check "$c" --tier quick 2>&1); code=$?
    if [ $code -eq 1 ]; then echo "caught by $c: $d"; else echo "MISSED($code) by $c: $d"; fi
  done
  git -C /repo checkout -- .
done
