#!/usr/bin/env python3
"""Regenerate MANIFEST.json from tools/manifest_checks.json (claimed checks) and properties.jsonl."""
import json
props = [json.loads(l) for l in open('/verif/properties.jsonl')]
claimed = json.load(open('/verif/tools/manifest_checks.json'))
hooks = ["0850f20", "7c55845", "233ad38", "03f1401"]
checks = []
for p in props:
    c = claimed.get(p['id'])
    if not c: continue
    checks.append({
        "property_id": p['id'],
        "quick_cmd": f"./check {p['id']} --tier quick",
        "thorough_cmd": f"./check {p['id']} --tier thorough",
        "evidence_file": f"/verif/evidence/{p['id']}.json",
        "replay_cmd_template": f"./check {p['id']} --replay {{path}}",
        "engine": "xv",
        "level_claimed": {"category": c['category'], "text": c['text'], "design_ref": c['design_ref']},
        "level_note": c['note'],
        "technique": c['technique'],
    })
na = [{"property_id": p['id'], "reason": "check not built yet in this session (work in progress; the technique applies, see DESIGN.md §3)"}
      for p in props if p['id'] not in claimed]
m = {
    "version": 1,
    "setup_cmd": "cd /verif/engine && CARGO_NET_OFFLINE=true cargo build --offline",
    "hooks": {
        "guard": "cargo feature `verif` of the xray crate (off by default)",
        "enable": "the engine depends on xray = { path = \"/repo\", features = [\"verif\"] }",
        "baseline_off_cmd": "cd /repo && cargo test --workspace --no-fail-fast --offline",
        "source_commits": hooks,
        "add_only": True,
    },
    "engines": [{
        "name": "xv",
        "path": "/verif/engine",
        "serves_properties": [c['property_id'] for c in checks],
        "kind_free_text": "Rust binary: proptest-driven byte tapes decoded into cases, reference models, fork-server workers running the real interpreter under rlimits, shrinking, replay files, evidence",
    }],
    "checks": checks,
    "notes": "Each check rebuilds the engine against /repo's working tree (cargo path dependency, feature verif) before running. Exit 0 = held, 1 = VIOLATION line printed, 2 = harness trouble (never a property verdict). Known findings: /verif/known_findings.json.",
    "not_applicable": na,
}
json.dump(m, open('/verif/MANIFEST.json', 'w'), indent=1)
print("claimed:", [c['property_id'] for c in checks])
