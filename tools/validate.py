#!/opt/veriftools/pyvenv/bin/python
import json, jsonschema, glob, sys
ok = True
try:
    jsonschema.validate(json.load(open('/verif/MANIFEST.json')), json.load(open('/root/.vp/MANIFEST.schema.json')))
except Exception as e:
    ok = False; print("MANIFEST invalid:", str(e)[:300])
es = json.load(open('/root/.vp/EVIDENCE.schema.json'))
for f in sorted(glob.glob('/verif/evidence/*.json')):
    try:
        jsonschema.validate(json.load(open(f)), es)
    except Exception as e:
        ok = False; print(f, "invalid:", str(e)[:300])
print("valid" if ok else "INVALID")
sys.exit(0 if ok else 1)
