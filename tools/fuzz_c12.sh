#!/bin/bash
# Coverage-guided part of C12 (thorough tier): libFuzzer campaign on the compiler entry point.
# usage: tools/fuzz_c12.sh run RUNS SEED   |   tools/fuzz_c12.sh replay FILE
# exit 0 = no crash, 1 = crash (VIOLATION line printed), 2 = the campaign could not be run.
cd /verif/fuzz || exit 2
export CARGO_NET_OFFLINE=true
W=/verif/fuzz/work; mkdir -p "$W"
if ! cargo +nightly fuzz build --fuzz-dir /verif/fuzz -s none compile >"$W/build.log" 2>&1; then
  tail -20 "$W/build.log" >&2; exit 2
fi
case "$1" in
  run)
    runs=${2:-200000}; seed=${3:-1}; [ "$seed" = 0 ] && seed=1
    rm -rf "$W/corpus" "$W/artifacts"; mkdir -p "$W/corpus" "$W/artifacts"
    # starting corpus: the head of every sixth shipped script (small valid inputs)
    i=0; for f in /repo/test_scripts/*.xr; do i=$((i+1)); [ $((i % 6)) -eq 0 ] && head -c 600 "$f" > "$W/corpus/s$i.xr"; done
    cargo +nightly fuzz run --fuzz-dir /verif/fuzz -s none compile "$W/corpus" -- \
      -runs="$runs" -seed="$seed" -max_len=600 -len_control=0 -timeout=20 -rss_limit_mb=4096 \
      -artifact_prefix="$W/artifacts/" -print_final_stats=1 >"$W/run.log" 2>&1
    code=$?
    execs=$(grep -o 'number_of_executed_units: [0-9]*' "$W/run.log" | grep -o '[0-9]*$')
    cov=$(grep -o 'cov: [0-9]*' "$W/run.log" | tail -1 | grep -o '[0-9]*$')
    echo "C12 fuzz: executions=${execs:-0} coverage_edges=${cov:-0} corpus=$(ls "$W/corpus" | wc -l) seed=$seed exit=$code"
    art=$(ls "$W/artifacts" 2>/dev/null | head -1)
    if [ -n "$art" ]; then
      mkdir -p /verif/replays; cp "$W/artifacts/$art" "/verif/replays/C12-fuzz-$art"
      echo "VIOLATION property=C12 replay=/verif/replays/C12-fuzz-$art"; tail -5 "$W/run.log"; exit 1
    fi
    [ $code -eq 0 ] || { tail -20 "$W/run.log" >&2; exit 2; }
    # record what the campaign covered next to the generated-input evidence
    python3 - "$execs" "$cov" "$seed" <<'PY'
import json, sys, os
p = os.environ.get('XV_EVIDENCE_DIR', '/verif/evidence') + '/C12.json'
try:
    e = json.load(open(p))
    e['coverage']['coverage_guided_campaign'] = {'engine': 'libFuzzer (cargo-fuzz, no sanitizer: the crate has no unsafe parser code)', 'executions': int(sys.argv[1] or 0), 'coverage_edges': int(sys.argv[2] or 0), 'seed': int(sys.argv[3]), 'oracle': 'no panic; two compilations of the text in brand-new scopes give the same verdict and rendered error'}
    json.dump(e, open(p, 'w'), indent=1)
except Exception as ex:
    print('evidence not updated:', ex)
PY
    exit 0;;
  replay)
    cargo +nightly fuzz run --fuzz-dir /verif/fuzz -s none compile "$2" >"$W/replay.log" 2>&1
    if [ $? -eq 0 ]; then echo "replay passes: property C12 holds on this input"; exit 0
    else echo "VIOLATION property=C12 replay=$2"; tail -8 "$W/replay.log"; exit 1; fi;;
esac
