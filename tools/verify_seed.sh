#!/bin/bash
# usage: tools/verify_seed.sh DIR  — confirm a sub-agent-produced breaking change independently, in a scratch
# worktree of /repo: demo passes on the clean tree, fails with patch.diff, the repository suite passes with it.
# DIR holds patch.diff and demo.rs; the result goes to DIR/verify.log; the worktree is removed afterwards.
d=$(realpath "$1"); id=$(basename "$d"); w=/tmp/v3_$id
export CARGO_NET_OFFLINE=true CARGO_TARGET_DIR=$w/target
git -C /repo worktree remove --force $w 2>/dev/null; rm -rf $w
git -C /repo worktree add -q --detach $w HEAD || exit 2
{
  cd $w; mkdir -p examples; cp "$d/demo.rs" examples/demo.rs
  echo "files in patch: $(grep '^+++ ' "$d/patch.diff" | tr '\n' ' ')"
  timeout 900 cargo run -q --offline -j 6 --example demo >/dev/null 2>$w/clean.err; echo "demo clean exit=$?"
  git apply "$d/patch.diff" || echo "PATCH DOES NOT APPLY"
  timeout 900 cargo run -q --offline -j 6 --example demo >$w/p.out 2>&1; echo "demo patched exit=$?"; tail -3 $w/p.out
  rm examples/demo.rs
  timeout 1500 cargo test -q --workspace --no-fail-fast --offline -j 6 2>&1 | grep -E "^test result|FAILED|failed" | head -8
} > "$d/verify.log" 2>&1
cd /; git -C /repo worktree remove --force $w; rm -rf $w
cat "$d/verify.log"
