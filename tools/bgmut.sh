#!/bin/bash
# development helper: run mutants against a SNAPSHOT of the engine (/tmp/xv_snap) and of the
# repository (/tmp/repo_snap), so that work on /verif/engine and /repo can continue meanwhile.
# usage: tools/bgmut.sh sync | seeded ID [check-ID...] | sens PREFIX
cd /verif || exit 2
export XV_ENGINE_DIR=/tmp/xv_snap XV_EVIDENCE_DIR=/tmp/xv_ev
R=/tmp/repo_snap
case "$1" in
  sync)
    git -C $R checkout -q --detach "$(git -C /repo rev-parse HEAD)" && git -C $R checkout -- .
    rsync -a --delete --exclude target /verif/engine/ /tmp/xv_snap/
    sed -i 's|path = "/repo"|path = "/tmp/repo_snap"|' /tmp/xv_snap/Cargo.toml
    echo "synced to $(git -C $R rev-parse --short HEAD)";;
  seeded)
    id=$2; shift 2; checks=${@:-$id}
    for d in seeded/$id/m*/; do
      git -C $R checkout -- .
      if ! git -C $R apply "/verif/$d/patch.diff" 2>/dev/null; then echo "SKIP (does not apply) $d"; continue; fi
      for c in $checks; do
        ./check "$c" --tier quick >/tmp/xv_ev/last_$c.log 2>&1; code=$?
        if [ $code -eq 1 ]; then echo "caught by $c: $d"; else echo "MISSED($code) by $c: $d"; fi
      done
      git -C $R checkout -- .
    done;;
  sens)
    for d in sensitivity/$2*.diff; do
      id=$(basename "$d" | cut -d- -f1)
      git -C $R checkout -- .
      if ! git -C $R apply "/verif/$d" 2>/dev/null; then echo "SKIP (does not apply) $d"; continue; fi
      ./check "$id" --tier quick >/tmp/xv_ev/last_$id.log 2>&1; code=$?
      git -C $R checkout -- .
      if [ $code -eq 1 ]; then echo "caught   $d"; else echo "MISSED($code) $d"; fi
    done;;
esac
