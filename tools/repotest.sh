#!/bin/bash
# run the repository's own test suite (hooks off); prints the summary and exits non-zero on failure
cd /repo && CARGO_NET_OFFLINE=true cargo test --workspace --no-fail-fast --offline 2>&1 | grep -E "^test result|FAILED|failed|panicked|error(\[|:)" | head -40
exit ${PIPESTATUS[0]}
