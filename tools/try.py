#!/usr/bin/env python3
"""dev helper: compile each '---'-separated snippet of stdin/file into ONE std scope (separate compile
steps) and print the outcome of each; with --run NAME run a zero-arg function afterwards."""
import sys, json, subprocess, tempfile, os
args = sys.argv[1:]
run = None
types = []
while args and args[0].startswith('--'):
    if args[0] == '--run': run = args[1]; args = args[2:]
    elif args[0] == '--type': types.append(args[1]); args = args[2:]
text = open(args[0]).read() if args else sys.stdin.read()
srcs = [s.strip('\n') for s in text.split('\n---\n')]
steps = [{"op": "compile", "src": i} for i in range(len(srcs))]
steps.append({"op": "instantiate"})
for t in types: steps.append({"op": "static_type", "name": t})
if run: steps.append({"op": "run", "name": run})
job = {"srcs": srcs, "steps": steps, "keep_going": True, "cpu_s": 10}
with tempfile.NamedTemporaryFile('w', suffix='.json', delete=False) as f:
    json.dump(job, f); p = f.name
out = subprocess.run(['/verif/engine/target/debug/xv', 'exec', p], capture_output=True, text=True)
os.unlink(p)
try:
    r = json.loads(out.stdout)
except Exception:
    print(out.stdout, out.stderr); sys.exit(1)
for i, s in enumerate(r['steps']):
    label = srcs[i].replace('\n', ' ')[:70] if i < len(srcs) else json.dumps(steps[i])
    if s['k'] == 'compile_error': print(f"[{i}] REJECT {s['class']}: {s['text'].splitlines()[-1][:150]}   <= {label}")
    elif s['k'] == 'type': print(f"[{i}] TYPE {s['text']}   <= {label}")
    else: print(f"[{i}] {json.dumps(s)[:200]}   <= {label}")
print("end:", r['end'], "output:", repr(r['output'][:200]))
