#!/usr/bin/env python3
"""Render the table of sub-agent-seeded mutants for DESIGN.md from /verif/seeded/*/m*/meta.json and
a results file (lines 'caught by CXX: seeded/CXX/mK/' / 'MISSED(n) by CXX: seeded/CXX/mK/'; later lines win)."""
import json, glob, re, sys, os
res = {}
for path in sys.argv[1:]:
    for l in open(path):
        m = re.match(r'(caught|MISSED\((\d+)\)) by (C\d+): seeded/(C\d+)/(m\d)/', l.strip())
        if m:
            res.setdefault((m.group(4), m.group(5)), {})[m.group(3)] = 'caught' if m.group(1) == 'caught' else 'missed'
print('| mutant | what was changed (sub-agent\'s summary) | result |')
print('|---|---|---|')
for d in sorted(glob.glob('/verif/seeded/C*/m*/')):
    pid, mk = d.rstrip('/').split('/')[-2:]
    try:
        meta = json.load(open(d + 'meta.json'))
    except Exception:
        meta = {}
    summ = (meta.get('summary') or '').replace('|', '/').replace('\n', ' ')
    if len(summ) > 230: summ = summ[:227] + '...'
    r = res.get((pid, mk), {})
    own = r.get(pid, 'not run')
    others = [f'{c}: {v}' for c, v in r.items() if c != pid]
    print(f'| {pid}/{mk} | {summ} | {own}' + (' (' + ', '.join(others) + ')' if others else '') + ' |')
