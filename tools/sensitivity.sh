#!/bin/bash
# usage: tools/sensitivity.sh [ID-prefix]   — apply each recorded breaking edit to /repo, run the
# property's quick check, expect exit 1 (VIOLATION), and undo the edit.  Never leaves /repo dirty.
cd /verif || exit 2
export XV_EVIDENCE_DIR=${XV_EVIDENCE_DIR:-/tmp/xv_ev}   # keep runs against broken trees out of /verif/evidence
if [ -n "$(git -C /repo status --porcelain)" ]; then echo "/repo is dirty"; exit 2; fi
pass=0; fail=0
for d in sensitivity/${1:-}*.diff; do
  id=$(basename "$d" | cut -d- -f1)
  if ! git -C /repo apply "/verif/$d" 2>/dev/null; then echo "SKIP (does not apply) $d"; continue; fi
  out=$(./check "$id" --tier quick 2>&1); code=$?
  git -C /repo checkout -- .
  if [ $code -eq 1 ]; then echo "caught   $d"; pass=$((pass+1)); else echo "MISSED($code) $d"; fail=$((fail+1)); fi
done
echo "caught=$pass missed=$fail"
