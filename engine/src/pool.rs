//! Supervisor-side handle of a worker process.
use crate::proto::*;
use std::io::{Read, Write};
use std::os::unix::process::CommandExt;
use std::process::{Child, ChildStdin, ChildStdout, Command, Stdio};

pub struct Worker {
    child: Child,
    stdin: ChildStdin,
    stdout: ChildStdout,
    pub jobs: u64,
}

#[derive(Debug)]
pub struct HarnessError(pub String);

impl Worker {
    pub fn spawn() -> Result<Self, HarnessError> {
        let exe = std::env::current_exe().map_err(|e| HarnessError(format!("current_exe: {e}")))?;
        let mut cmd = Command::new(exe);
        cmd.arg("worker")
            .stdin(Stdio::piped())
            .stdout(Stdio::piped())
            .stderr(Stdio::null());
        unsafe {
            cmd.pre_exec(|| {
                // a large main-thread stack so that bounded deep recursion of the interpreter
                // is not mistaken for a crash
                let st = libc::rlimit {
                    rlim_cur: 1 << 30,
                    rlim_max: 1 << 30,
                };
                libc::setrlimit(libc::RLIMIT_STACK, &st);
                Ok(())
            });
        }
        let mut child = cmd
            .spawn()
            .map_err(|e| HarnessError(format!("spawn worker: {e}")))?;
        let stdin = child.stdin.take().unwrap();
        let stdout = child.stdout.take().unwrap();
        Ok(Worker {
            child,
            stdin,
            stdout,
            jobs: 0,
        })
    }

    fn try_exec(&mut self, job: &Job) -> Result<Reply, HarnessError> {
        let body = serde_json::to_vec(job).map_err(|e| HarnessError(e.to_string()))?;
        self.stdin
            .write_all(&(body.len() as u32).to_le_bytes())
            .and_then(|_| self.stdin.write_all(&body))
            .and_then(|_| self.stdin.flush())
            .map_err(|e| HarnessError(format!("write to worker: {e}")))?;
        let mut lenb = [0u8; 4];
        self.stdout
            .read_exact(&mut lenb)
            .map_err(|e| HarnessError(format!("read from worker: {e}")))?;
        let mut buf = vec![0u8; u32::from_le_bytes(lenb) as usize];
        self.stdout
            .read_exact(&mut buf)
            .map_err(|e| HarnessError(format!("read from worker: {e}")))?;
        serde_json::from_slice(&buf).map_err(|e| HarnessError(format!("bad reply: {e}")))
    }

    /// run a job; a broken worker is respawned once
    pub fn exec(&mut self, job: &Job) -> Result<Reply, HarnessError> {
        self.jobs += 1;
        match self.try_exec(job) {
            Ok(r) => Ok(r),
            Err(_) => {
                let _ = self.child.kill();
                let _ = self.child.wait();
                *self = Worker::spawn()?;
                self.try_exec(job)
            }
        }
    }
}

impl Drop for Worker {
    fn drop(&mut self) {
        let _ = self.child.kill();
        let _ = self.child.wait();
    }
}

/// run many independent jobs on `n` fresh workers (used by deterministic enumerations that
/// would be too slow on the single worker of a shard)
pub fn par_exec(jobs: &[Job], n: usize) -> Result<Vec<Reply>, HarnessError> {
    let next = std::sync::atomic::AtomicUsize::new(0);
    let out: std::sync::Mutex<Vec<Option<Reply>>> = std::sync::Mutex::new(vec![None; jobs.len()]);
    let err: std::sync::Mutex<Option<String>> = std::sync::Mutex::new(None);
    std::thread::scope(|s| {
        for _ in 0..n.max(1) {
            s.spawn(|| {
                let mut w = match Worker::spawn() {
                    Ok(w) => w,
                    Err(e) => {
                        *err.lock().unwrap() = Some(e.0);
                        return;
                    }
                };
                loop {
                    let i = next.fetch_add(1, std::sync::atomic::Ordering::SeqCst);
                    if i >= jobs.len() || err.lock().unwrap().is_some() {
                        break;
                    }
                    match w.exec(&jobs[i]) {
                        Ok(r) => out.lock().unwrap()[i] = Some(r),
                        Err(e) => {
                            *err.lock().unwrap() = Some(e.0);
                            break;
                        }
                    }
                }
            });
        }
    });
    if let Some(e) = err.into_inner().unwrap() {
        return Err(HarnessError(e));
    }
    out.into_inner()
        .unwrap()
        .into_iter()
        .map(|r| r.ok_or_else(|| HarnessError("job not executed".into())))
        .collect()
}
