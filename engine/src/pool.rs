//! Supervisor-side handle of a worker process.
use crate::proto::*;
use std::io::{Read, Write};
use std::os::unix::process::CommandExt;
use std::process::{Child, ChildStdin, ChildStdout, Command, Stdio};

pub struct Worker {
    child: Child,
    stdin: ChildStdin,
    stdout: ChildStdout,
    pub jobs: u64,
}

#[derive(Debug)]
pub struct HarnessError(pub String);

impl Worker {
    pub fn spawn() -> Result<Self, HarnessError> {
        let exe = std::env::current_exe().map_err(|e| HarnessError(format!("current_exe: {e}")))?;
        let mut cmd = Command::new(exe);
        cmd.arg("worker")
            .stdin(Stdio::piped())
            .stdout(Stdio::piped())
            .stderr(Stdio::null());
        unsafe {
            cmd.pre_exec(|| {
                // a large main-thread stack so that bounded deep recursion of the interpreter
                // is not mistaken for a crash
                let st = libc::rlimit {
                    rlim_cur: 1 << 30,
                    rlim_max: 1 << 30,
                };
                libc::setrlimit(libc::RLIMIT_STACK, &st);
                Ok(())
            });
        }
        let mut child = cmd
            .spawn()
            .map_err(|e| HarnessError(format!("spawn worker: {e}")))?;
        let stdin = child.stdin.take().unwrap();
        let stdout = child.stdout.take().unwrap();
        Ok(Worker {
            child,
            stdin,
            stdout,
            jobs: 0,
        })
    }

    fn try_exec(&mut self, job: &Job) -> Result<Reply, HarnessError> {
        let body = serde_json::to_vec(job).map_err(|e| HarnessError(e.to_string()))?;
        self.stdin
            .write_all(&(body.len() as u32).to_le_bytes())
            .and_then(|_| self.stdin.write_all(&body))
            .and_then(|_| self.stdin.flush())
            .map_err(|e| HarnessError(format!("write to worker: {e}")))?;
        let mut lenb = [0u8; 4];
        self.stdout
            .read_exact(&mut lenb)
            .map_err(|e| HarnessError(format!("read from worker: {e}")))?;
        let mut buf = vec![0u8; u32::from_le_bytes(lenb) as usize];
        self.stdout
            .read_exact(&mut buf)
            .map_err(|e| HarnessError(format!("read from worker: {e}")))?;
        serde_json::from_slice(&buf).map_err(|e| HarnessError(format!("bad reply: {e}")))
    }

    /// run a job; a broken worker is respawned once
    pub fn exec(&mut self, job: &Job) -> Result<Reply, HarnessError> {
        self.jobs += 1;
        match self.try_exec(job) {
            Ok(r) => Ok(r),
            Err(_) => {
                let _ = self.child.kill();
                let _ = self.child.wait();
                *self = Worker::spawn()?;
                self.try_exec(job)
            }
        }
    }
}

impl Drop for Worker {
    fn drop(&mut self) {
        let _ = self.child.kill();
        let _ = self.child.wait();
    }
}
