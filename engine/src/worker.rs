//! Worker: a single-threaded fork server.  Builds the standard library scope once, then
//! forks one child per job; the child is confined by rlimits and streams its step results.
use crate::proto::*;
use serde_json::{json, Value};
use std::cell::{Cell, RefCell};
use std::io::{Read, Write};
use std::panic::{catch_unwind, AssertUnwindSafe};
use std::rc::Rc;
use std::time::Duration;
use xray::builtin::builtin_permissions as bp;
use xray::builtin::verif::{dump_value, DumpOptions};
use xray::compile_err::ResolvedTracedCompilationError;
use xray::permissions::PermissionSet;
use xray::root_compilation_scope::RootCompilationScope;
use xray::root_runtime_scope::{EvaluatedValue, RootEvaluationScope};
use xray::runtime::{RTCell, RuntimeLimits};
use xray::time_provider::TimeProvider;

// ---------------------------------------------------------------- recording doubles

thread_local! {
    static WRITER_CALLS: Cell<u64> = Cell::new(0);
    static CLOCK_READS: Cell<u64> = Cell::new(0);
    static RNG_CREATED: Cell<u64> = Cell::new(0);
    static RNG_DRAWS: Cell<u64> = Cell::new(0);
    static RNG_SEED: Cell<u64> = Cell::new(1);
    static OUTPUT: RefCell<Vec<u8>> = RefCell::new(Vec::new());
    static LAST_PANIC: RefCell<Option<(String, String)>> = RefCell::new(None);
    static PIPE_FD: Cell<i32> = Cell::new(-1);
}

pub struct RecWriter;
impl Write for RecWriter {
    fn write(&mut self, buf: &[u8]) -> std::io::Result<usize> {
        WRITER_CALLS.with(|c| c.set(c.get() + 1));
        OUTPUT.with(|o| o.borrow_mut().extend_from_slice(buf));
        Ok(buf.len())
    }
    fn flush(&mut self) -> std::io::Result<()> {
        Ok(())
    }
}

pub struct RecClock(pub f64);
impl TimeProvider for RecClock {
    fn unix_now(&self) -> f64 {
        CLOCK_READS.with(|c| c.set(c.get() + 1));
        self.0
    }
}

/// splitmix64-based deterministic random source that records creation and draws
pub struct RecRng(u64);
impl rand::RngCore for RecRng {
    fn next_u32(&mut self) -> u32 {
        (self.next_u64() >> 32) as u32
    }
    fn next_u64(&mut self) -> u64 {
        RNG_DRAWS.with(|c| c.set(c.get() + 1));
        self.0 = self.0.wrapping_add(0x9E37_79B9_7F4A_7C15);
        let mut z = self.0;
        z = (z ^ (z >> 30)).wrapping_mul(0xBF58_476D_1CE4_E5B9);
        z = (z ^ (z >> 27)).wrapping_mul(0x94D0_49BB_1331_11EB);
        z ^ (z >> 31)
    }
    fn fill_bytes(&mut self, dest: &mut [u8]) {
        for chunk in dest.chunks_mut(8) {
            let v = self.next_u64().to_le_bytes();
            chunk.copy_from_slice(&v[..chunk.len()]);
        }
    }
    fn try_fill_bytes(&mut self, dest: &mut [u8]) -> Result<(), rand::Error> {
        self.fill_bytes(dest);
        Ok(())
    }
}
impl rand::SeedableRng for RecRng {
    type Seed = [u8; 8];
    fn from_seed(seed: Self::Seed) -> Self {
        RNG_CREATED.with(|c| c.set(c.get() + 1));
        RecRng(u64::from_le_bytes(seed))
    }
    fn from_entropy() -> Self {
        Self::from_seed(RNG_SEED.with(|s| s.get()).to_le_bytes())
    }
}

type Scope = RootCompilationScope<RecWriter, RecRng, RecClock>;
type Rt = RTCell<RecWriter, RecRng, RecClock>;

// ---------------------------------------------------------------- helpers

fn limits_of(l: &Limits) -> RuntimeLimits {
    let mut permissions = PermissionSet::default();
    for (id, allow) in &l.perms {
        let p = match id.as_str() {
            "now" => &bp::NOW,
            "print" => &bp::PRINT,
            "print_debug" => &bp::PRINT_DEBUG,
            "random" => &bp::RANDOM,
            "regex" => &bp::REGEX,
            "sleep" => &bp::SLEEP,
            _ => continue,
        };
        if *allow {
            permissions.allow(p)
        } else {
            permissions.forbid(p)
        }
    }
    RuntimeLimits {
        size_limit: l.size.map(|v| v as usize),
        depth_limit: l.depth.map(|v| v as usize),
        recursion_limit: l.recursion.map(|v| v as usize),
        ud_call_limit: l.calls.map(|v| v as usize),
        maximum_search: l.search.map(|v| v as usize),
        time_limit: l.time_ms.map(Duration::from_millis),
        permissions,
    }
}

fn violation_name(v: &dyn std::fmt::Debug) -> String {
    format!("{v:?}")
}

fn guarded<F: FnOnce() -> Out>(f: F) -> Out {
    LAST_PANIC.with(|p| *p.borrow_mut() = None);
    match catch_unwind(AssertUnwindSafe(f)) {
        Ok(o) => o,
        Err(payload) => {
            let (msg, loc) = LAST_PANIC.with(|p| p.borrow_mut().take()).unwrap_or_else(|| {
                let msg = payload
                    .downcast_ref::<&str>()
                    .map(|s| s.to_string())
                    .or_else(|| payload.downcast_ref::<String>().cloned())
                    .unwrap_or_else(|| "<non-string panic>".into());
                (msg, String::new())
            });
            // the payload may itself own interpreter values; dropping it must not unwind
            let _ = catch_unwind(AssertUnwindSafe(move || drop(payload)));
            Out::Panic { msg, loc }
        }
    }
}

fn dump_out(
    scope: &RootEvaluationScope<'_, RecWriter, RecRng, RecClock>,
    v: &EvaluatedValue<RecWriter, RecRng, RecClock>,
    opts: &DumpOpts,
) -> Out {
    if let Err(e) = v {
        return Out::Error {
            msg: e.error.clone(),
        };
    }
    let o = DumpOptions {
        max_nodes: opts.max_nodes,
        max_depth: opts.max_depth,
        lazy_prefix: opts.lazy_prefix,
    };
    match dump_value(scope, v, o) {
        Ok(s) => Out::Value {
            dump: serde_json::from_str(&s).unwrap_or(Value::Null),
        },
        Err(v) => Out::Violation {
            v: violation_name(&v),
        },
    }
}

fn counters(rt: Option<&Rt>) -> Out {
    Out::Counters {
        bytes: rt.map_or(0, |r| r.verif_accounted_bytes() as u64),
        ud_calls: rt.map_or(0, |r| r.verif_ud_calls() as u64),
        writer_calls: WRITER_CALLS.with(|c| c.get()),
        clock_reads: CLOCK_READS.with(|c| c.get()),
        rng_created: RNG_CREATED.with(|c| c.get()),
        rng_draws: RNG_DRAWS.with(|c| c.get()),
    }
}

// ---------------------------------------------------------------- job execution

fn run_job(scope_ptr: *mut Scope, job: &Job, emit: &mut dyn FnMut(usize, &Out)) {
    let mut scope_ptr = scope_ptr;
    RNG_SEED.with(|s| s.set(job.rng_seed));
    let mut rt: Option<Rt> = None;
    // SAFETY (harness): the evaluation scope borrows the compilation scope immutably; it is
    // always dropped before a later Compile step mutates the compilation scope.
    let mut eval: Option<RootEvaluationScope<'static, RecWriter, RecRng, RecClock>> = None;
    let mut dead = false;
    for (i, step) in job.steps.iter().enumerate() {
        if dead {
            emit(i, &Out::Skipped);
            continue;
        }
        let out = match step {
            Step::Compile { src } => {
                eval = None;
                let text = job.srcs.get(*src).cloned().unwrap_or_default();
                guarded(|| {
                    let scope = unsafe { &mut *scope_ptr };
                    match scope.feed_file(&text) {
                        Ok(()) => Out::Done,
                        Err(e) => {
                            let class = match e.as_ref() {
                                ResolvedTracedCompilationError::Syntax(_) => "Syntax".to_string(),
                                ResolvedTracedCompilationError::Compilation(r, _, _) => {
                                    <&xray::compile_err::ResolvedCompilationError as Into<
                                        &'static str,
                                    >>::into(r)
                                    .to_string()
                                }
                            };
                            Out::CompileError {
                                class,
                                text: format!("{e}"),
                            }
                        }
                    }
                })
            }
            Step::NewStdScope => {
                // from here on the job works in a standard-library scope compiled just now
                eval = None;
                guarded(|| {
                    scope_ptr = Box::leak(Box::new(xray::std_compilation_scope())) as *mut Scope;
                    Out::Done
                })
            }
            Step::CompileBare { src } | Step::CompileFresh { src } => {
                let text = job.srcs.get(*src).cloned().unwrap_or_default();
                let bare = matches!(step, Step::CompileBare { .. });
                guarded(|| {
                    let mut scope: Scope = if bare { RootCompilationScope::new() } else { xray::std_compilation_scope() };
                    match scope.feed_file(&text) {
                        Ok(()) => Out::Done,
                        Err(e) => {
                            let class = match e.as_ref() {
                                ResolvedTracedCompilationError::Syntax(_) => "Syntax".to_string(),
                                ResolvedTracedCompilationError::Compilation(r, _, _) => {
                                    <&xray::compile_err::ResolvedCompilationError as Into<&'static str>>::into(r).to_string()
                                }
                            };
                            Out::CompileError { class, text: format!("{e}") }
                        }
                    }
                })
            }
            Step::Instantiate => {
                eval = None;
                rt = None;
                let mut new_rt = None;
                let mut new_eval = None;
                let o = guarded(|| {
                    let scope: &'static Scope = unsafe { &*scope_ptr };
                    let runtime: Rt = limits_of(&job.limits).to_runtime(RecWriter, RecClock(job.clock));
                    new_rt = Some(runtime.clone());
                    match RootEvaluationScope::from_compilation_scope(scope, runtime) {
                        Ok(e) => {
                            new_eval = Some(e);
                            Out::Done
                        }
                        Err(v) => Out::Violation {
                            v: violation_name(&v),
                        },
                    }
                });
                rt = new_rt;
                eval = new_eval;
                o
            }
            Step::Get { name } => match &eval {
                None => Out::Skipped,
                Some(ev) => guarded(|| match ev.get_value(name) {
                    Ok(v) => dump_out(ev, v, &job.dump),
                    Err(e) => Out::NotFound {
                        why: format!("{e:?}"),
                    },
                }),
            },
            Step::Run { name } | Step::RunQuiet { name } => match &eval {
                None => Out::Skipped,
                Some(ev) => guarded(|| match ev.get_user_defined_function(name) {
                    Err(e) => Out::NotFound {
                        why: format!("{e:?}"),
                    },
                    Ok(f) => match ev.run_function(f, vec![]) {
                        Err(v) => Out::Violation {
                            v: violation_name(&v),
                        },
                        Ok(r) => {
                            let v = r.unwrap_value();
                            if matches!(step, Step::RunQuiet { .. }) {
                                match &v {
                                    Ok(_) => Out::Done,
                                    Err(e) => Out::Error {
                                        msg: e.error.clone(),
                                    },
                                }
                            } else {
                                dump_out(ev, &v, &job.dump)
                            }
                        }
                    },
                }),
            },
            Step::ResetCalls => {
                if let Some(r) = &rt {
                    r.reset_call_limit();
                }
                Out::Done
            }
            Step::ResetTimeout => {
                if let Some(r) = &rt {
                    r.reset_timeout();
                }
                Out::Done
            }
            Step::DropScope => {
                let e = eval.take();
                guarded(move || {
                    drop(e);
                    Out::Done
                })
            }
            Step::Counters => counters(rt.as_ref()),
            Step::StaticType { name } => guarded(|| {
                let scope: &Scope = unsafe { &*scope_ptr };
                match scope.verif_static_type(name) {
                    Some(j) => Out::Type {
                        json: serde_json::from_str(&j).unwrap_or(Value::Null),
                        text: scope.verif_static_type_text(name).unwrap_or_default(),
                    },
                    None => Out::NotFound {
                        why: "no such variable".into(),
                    },
                }
            }),
            Step::DumpAll => match &eval {
                None => Out::Skipped,
                Some(ev) => guarded(|| {
                    let scope: &Scope = unsafe { &*scope_ptr };
                    let mut vars = Vec::new();
                    for name in scope.verif_variable_names() {
                        let ty = scope
                            .verif_static_type(&name)
                            .and_then(|j| serde_json::from_str(&j).ok())
                            .unwrap_or(Value::Null);
                        let out = match ev.get_value(&name) {
                            Ok(v) => dump_out(ev, v, &job.dump),
                            Err(e) => Out::NotFound {
                                why: format!("{e:?}"),
                            },
                        };
                        vars.push((name, ty, Box::new(out)));
                    }
                    Out::All { vars }
                }),
            },
            Step::RootFunctions => guarded(|| {
                let scope: &Scope = unsafe { &*scope_ptr };
                Out::Json {
                    json: serde_json::from_str(&scope.verif_root_functions()).unwrap_or(Value::Null),
                }
            }),
            Step::TraceStart => {
                xray::runtime::verif_trace::start();
                Out::Done
            }
            Step::TraceTake => Out::Trace {
                trace: xray::runtime::verif_trace::take(),
            },
            Step::HostSleepMs { ms } => {
                std::thread::sleep(Duration::from_millis(*ms));
                Out::Done
            }
        };
        if out.is_panic() && !job.keep_going {
            dead = true;
        }
        emit(i, &out);
    }
    // tear down in a guarded way: a panic while dropping must not look like a lost reply
    let o = guarded(move || {
        drop(eval);
        drop(rt);
        Out::Done
    });
    if o.is_panic() {
        emit(usize::MAX, &o);
    }
}

// ---------------------------------------------------------------- process plumbing

fn write_all_fd(fd: i32, mut data: &[u8]) {
    while !data.is_empty() {
        let n = unsafe { libc::write(fd, data.as_ptr() as *const _, data.len()) };
        if n <= 0 {
            return;
        }
        data = &data[n as usize..];
    }
}

fn cpu_ms_self() -> u64 {
    let mut ru: libc::rusage = unsafe { std::mem::zeroed() };
    unsafe { libc::getrusage(libc::RUSAGE_SELF, &mut ru) };
    (ru.ru_utime.tv_sec as u64 * 1000 + ru.ru_utime.tv_usec as u64 / 1000)
        + (ru.ru_stime.tv_sec as u64 * 1000 + ru.ru_stime.tv_usec as u64 / 1000)
}

fn child_main(std_scope: *mut Scope, job: &Job, wfd: i32) -> ! {
    unsafe {
        let cpu = libc::rlimit {
            rlim_cur: job.cpu_s.max(1),
            rlim_max: job.cpu_s.max(1) + 2,
        };
        libc::setrlimit(libc::RLIMIT_CPU, &cpu);
        let mem: u64 = 4 << 30;
        let asl = libc::rlimit {
            rlim_cur: mem,
            rlim_max: mem,
        };
        libc::setrlimit(libc::RLIMIT_AS, &asl);
        let core = libc::rlimit {
            rlim_cur: 0,
            rlim_max: 0,
        };
        libc::setrlimit(libc::RLIMIT_CORE, &core);
        // stderr text (allocation failure messages) goes to the reply pipe as well
        libc::dup2(wfd, 2);
    }
    PIPE_FD.with(|p| p.set(wfd));
    std::panic::set_hook(Box::new(|info| {
        let msg = info
            .payload()
            .downcast_ref::<&str>()
            .map(|s| s.to_string())
            .or_else(|| info.payload().downcast_ref::<String>().cloned())
            .unwrap_or_else(|| "<non-string panic>".into());
        let loc = info
            .location()
            .map(|l| format!("{}:{}", l.file(), l.line()))
            .unwrap_or_default();
        let fd = PIPE_FD.with(|p| p.get());
        let line = format!("{}\n", json!({"panicking": {"msg": msg, "loc": loc}}));
        write_all_fd(fd, line.as_bytes());
        LAST_PANIC.with(|p| *p.borrow_mut() = Some((msg, loc)));
    }));
    let start = cpu_ms_self();
    let mut own_scope: Option<Box<Scope>> = None;
    let scope_ptr: *mut Scope = if job.bare {
        own_scope = Some(Box::new(RootCompilationScope::new()));
        own_scope.as_mut().unwrap().as_mut() as *mut Scope
    } else if job.fresh_scope {
        own_scope = Some(Box::new(xray::std_compilation_scope()));
        own_scope.as_mut().unwrap().as_mut() as *mut Scope
    } else {
        std_scope
    };
    let mut emit = |i: usize, out: &Out| {
        let line = format!("{}\n", json!({"step": i, "out": out}));
        write_all_fd(wfd, line.as_bytes());
    };
    run_job(scope_ptr, job, &mut emit);
    let fin = json!({"final": {
        "output": OUTPUT.with(|o| String::from_utf8_lossy(&o.borrow()).to_string()),
        "cpu_ms": cpu_ms_self() - start,
        "writer_calls": WRITER_CALLS.with(|c| c.get()),
        "clock_reads": CLOCK_READS.with(|c| c.get()),
        "rng_created": RNG_CREATED.with(|c| c.get()),
        "rng_draws": RNG_DRAWS.with(|c| c.get()),
    }});
    write_all_fd(wfd, format!("{fin}\n").as_bytes());
    std::mem::forget(own_scope);
    unsafe { libc::_exit(0) }
}

fn read_exact_or_eof(r: &mut impl Read, buf: &mut [u8]) -> bool {
    let mut off = 0;
    while off < buf.len() {
        match r.read(&mut buf[off..]) {
            Ok(0) => return false,
            Ok(n) => off += n,
            Err(e) if e.kind() == std::io::ErrorKind::Interrupted => continue,
            Err(_) => return false,
        }
    }
    true
}

/// run one job in a forked child and assemble the reply
fn serve(std_scope: *mut Scope, job: &Job) -> Reply {
    let mut fds = [0i32; 2];
    if unsafe { libc::pipe(fds.as_mut_ptr()) } != 0 {
        return Reply::dead(End::Abort {
            how: "pipe failed".into(),
        });
    }
    let pid = unsafe { libc::fork() };
    if pid < 0 {
        return Reply::dead(End::Abort {
            how: "fork failed".into(),
        });
    }
    if pid == 0 {
        unsafe { libc::close(fds[0]) };
        child_main(std_scope, job, fds[1]);
    }
    unsafe { libc::close(fds[1]) };
    // read until EOF with a wall-clock backstop
    let wall_ms: i64 = (job.cpu_s as i64) * 3000 + 30_000;
    let deadline = std::time::Instant::now() + Duration::from_millis(wall_ms as u64);
    let mut data: Vec<u8> = Vec::new();
    let mut buf = [0u8; 65536];
    let mut wall_timeout = false;
    loop {
        let now = std::time::Instant::now();
        if now >= deadline {
            wall_timeout = true;
            unsafe { libc::kill(pid, libc::SIGKILL) };
            break;
        }
        let remain = (deadline - now).as_millis().min(1000) as i32;
        let mut pfd = libc::pollfd {
            fd: fds[0],
            events: libc::POLLIN,
            revents: 0,
        };
        let r = unsafe { libc::poll(&mut pfd, 1, remain) };
        if r > 0 {
            let n = unsafe { libc::read(fds[0], buf.as_mut_ptr() as *mut _, buf.len()) };
            if n <= 0 {
                break;
            }
            if data.len() < (64 << 20) {
                data.extend_from_slice(&buf[..n as usize]);
            }
        }
    }
    unsafe { libc::close(fds[0]) };
    let mut status = 0i32;
    unsafe { libc::waitpid(pid, &mut status, 0) };

    let mut steps: Vec<Out> = Vec::new();
    let mut fin: Option<Value> = None;
    let mut last_panicking: Option<(String, String)> = None;
    let mut stderr_text = String::new();
    let mut teardown_panic: Option<Out> = None;
    for line in data.split(|b| *b == b'\n') {
        if line.is_empty() {
            continue;
        }
        match serde_json::from_slice::<Value>(line) {
            Ok(v) if v.get("step").is_some() => {
                let idx = v["step"].as_u64().unwrap_or(u64::MAX);
                if let Ok(out) = serde_json::from_value::<Out>(v["out"].clone()) {
                    if idx == u64::MAX || idx as usize >= job.steps.len() {
                        teardown_panic = Some(out);
                    } else {
                        steps.push(out);
                    }
                }
            }
            Ok(v) if v.get("final").is_some() => fin = Some(v["final"].clone()),
            Ok(v) if v.get("panicking").is_some() => {
                last_panicking = Some((
                    v["panicking"]["msg"].as_str().unwrap_or("").to_string(),
                    v["panicking"]["loc"].as_str().unwrap_or("").to_string(),
                ))
            }
            _ => {
                if stderr_text.len() < 2048 {
                    stderr_text.push_str(&String::from_utf8_lossy(line));
                    stderr_text.push('\n');
                }
            }
        }
    }
    let exited_ok = libc::WIFEXITED(status) && libc::WEXITSTATUS(status) == 0 && fin.is_some();
    let end = if wall_timeout {
        End::WallTimeout
    } else if exited_ok {
        End::Ok
    } else if libc::WIFSIGNALED(status) && libc::WTERMSIG(status) == libc::SIGXCPU {
        End::CpuTimeout
    } else if libc::WIFSIGNALED(status) && libc::WTERMSIG(status) == libc::SIGKILL {
        // hard CPU limit
        End::CpuTimeout
    } else if stderr_text.contains("memory allocation of") {
        End::Memory
    } else {
        let how = if libc::WIFSIGNALED(status) {
            format!("signal {}", libc::WTERMSIG(status))
        } else {
            format!("exit {}", libc::WEXITSTATUS(status))
        };
        let extra = last_panicking
            .as_ref()
            .map(|(m, l)| format!("; last panic: {m} @ {l}"))
            .unwrap_or_default();
        let se = stderr_text.lines().next().unwrap_or("").to_string();
        End::Abort {
            how: format!("{how}{extra}{}", if se.is_empty() { String::new() } else { format!("; stderr: {se}") }),
        }
    };
    let died_in = if end == End::Ok {
        None
    } else {
        Some(steps.len())
    };
    let mut reply = Reply {
        end,
        steps,
        output: String::new(),
        cpu_ms: 0,
        died_in,
        writer_calls: 0,
        clock_reads: 0,
        rng_created: 0,
        rng_draws: 0,
    };
    if let Some(f) = fin {
        reply.output = f["output"].as_str().unwrap_or("").to_string();
        reply.cpu_ms = f["cpu_ms"].as_u64().unwrap_or(0);
        reply.writer_calls = f["writer_calls"].as_u64().unwrap_or(0);
        reply.clock_reads = f["clock_reads"].as_u64().unwrap_or(0);
        reply.rng_created = f["rng_created"].as_u64().unwrap_or(0);
        reply.rng_draws = f["rng_draws"].as_u64().unwrap_or(0);
    }
    if let Some(tp) = teardown_panic {
        // a panic while dropping the scope/runtime: report as an extra trailing step
        reply.steps.push(tp);
    }
    reply
}

pub fn worker_main() -> ! {
    // quiet default hook in the server itself
    let mut std_scope: Box<Scope> = Box::new(xray::std_compilation_scope());
    let ptr: *mut Scope = std_scope.as_mut() as *mut Scope;
    let stdin = std::io::stdin();
    let mut stdin = stdin.lock();
    let stdout = std::io::stdout();
    let mut stdout = stdout.lock();
    loop {
        let mut lenb = [0u8; 4];
        if !read_exact_or_eof(&mut stdin, &mut lenb) {
            std::process::exit(0);
        }
        let len = u32::from_le_bytes(lenb) as usize;
        let mut body = vec![0u8; len];
        if !read_exact_or_eof(&mut stdin, &mut body) {
            std::process::exit(0);
        }
        let reply = match serde_json::from_slice::<Job>(&body) {
            Ok(job) => serve(ptr, &job),
            Err(e) => Reply::dead(End::Abort {
                how: format!("bad job: {e}"),
            }),
        };
        let out = serde_json::to_vec(&reply).unwrap();
        let _ = stdout.write_all(&(out.len() as u32).to_le_bytes());
        let _ = stdout.write_all(&out);
        let _ = stdout.flush();
    }
}
