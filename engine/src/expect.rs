//! Expectations on step outcomes; the common currency of live oracles and stored repros.
use crate::dump;
use crate::proto::*;
use serde::{Deserialize, Serialize};
use serde_json::Value;

#[derive(Serialize, Deserialize, Clone, Debug, PartialEq)]
#[serde(tag = "e", rename_all = "snake_case")]
pub enum Expect {
    /// a value whose dump matches
    Dump { dump: Value },
    /// an error value (any message, or exactly this one)
    Error { msg: Option<String> },
    /// a value matching the dump, or an error value
    DumpOrError { dump: Value },
    /// a violation of this kind (Debug rendering, e.g. "MaximumSearch")
    Violation { v: String },
    /// anything except a panic / abort / lost reply
    NoPanic,
    /// a value or an error value (no violation, no panic)
    ValueOrError,
    /// step reports Done
    Done,
    /// compile error of one of these classes
    CompileError { classes: Vec<String> },
    /// any of the alternatives
    OneOf { alts: Vec<Expect> },
    /// a value all of whose floats are finite, or an error value, or a violation
    Finite,
    /// a tuple (text, bool, text): both texts parse (with an independent JSON parser) to
    /// `doc`, and the bool is true
    JsonRoundTrip { doc: Value },
    /// a value of the shape of this static type, or an error value, or a violation
    Conforms {
        ty: crate::gstd::Ty,
        defs: std::collections::BTreeMap<String, crate::gstd::CompoundDef>,
    },
}

/// first non-finite float in a dump
pub fn non_finite(d: &Value) -> Option<String> {
    let mut bad = None;
    dump::walk(d, &mut |n| {
        if let Some(bits) = n.get("f").and_then(|b| b.as_str()) {
            if let Ok(b) = u64::from_str_radix(bits, 16) {
                if !f64::from_bits(b).is_finite() && bad.is_none() {
                    bad = Some(format!("{}", f64::from_bits(b)));
                }
            }
        }
    });
    bad
}

pub fn satisfied(e: &Expect, o: &Out) -> bool {
    match e {
        Expect::Dump { dump: d } => match o {
            Out::Value { dump: od } => dump::matches(d, od),
            _ => false,
        },
        Expect::Error { msg } => match o {
            Out::Error { msg: om } => msg.as_ref().map_or(true, |m| m == om),
            _ => false,
        },
        Expect::DumpOrError { dump: d } => match o {
            Out::Value { dump: od } => dump::matches(d, od),
            Out::Error { .. } => true,
            _ => false,
        },
        Expect::Violation { v } => matches!(o, Out::Violation { v: ov } if ov == v),
        Expect::NoPanic => !matches!(o, Out::Panic { .. } | Out::Skipped),
        Expect::ValueOrError => matches!(o, Out::Value { .. } | Out::Error { .. } | Out::Done),
        Expect::Done => matches!(o, Out::Done),
        Expect::CompileError { classes } => {
            matches!(o, Out::CompileError { class, .. } if classes.is_empty() || classes.contains(class))
        }
        Expect::OneOf { alts } => alts.iter().any(|a| satisfied(a, o)),
        Expect::JsonRoundTrip { doc } => match o {
            Out::Value { dump: d } => {
                let items = d["st"].as_array().cloned().unwrap_or_default();
                items.len() == 3
                    && items[1]["b"] == true
                    && [0usize, 2].iter().all(|i| {
                        items[*i]["s"]
                            .as_str()
                            .and_then(|t| serde_json::from_str::<Value>(t).ok())
                            .map_or(false, |v| json_eq(&v, doc))
                    })
            }
            _ => false,
        },
        Expect::Finite => match o {
            Out::Value { dump: d } => non_finite(d).is_none(),
            Out::Error { .. } | Out::Violation { .. } => true,
            _ => false,
        },
        Expect::Conforms { ty, defs } => match o {
            Out::Value { dump: d } => crate::gstd::conforms(d, ty, defs, 0).is_ok(),
            Out::Error { .. } | Out::Violation { .. } => true,
            _ => false,
        },
    }
}

/// short, stable description of an outcome (used in failure signatures)
pub fn brief(o: &Out) -> String {
    match o {
        Out::Value { dump: d } => {
            let full = dump::strip(d).to_string();
            let mut s: String = full.chars().take(200).collect();
            if s.len() < full.len() {
                s.push('…');
            }
            format!("value {s}")
        }
        Out::Error { msg } => format!("error {msg:?}"),
        Out::Violation { v } => format!("violation {v}"),
        Out::Panic { msg, loc } => format!("panic {msg:?} at {loc}"),
        Out::CompileError { class, .. } => format!("compile error [{class}]"),
        other => other.class().to_string(),
    }
}

/// equality of JSON documents with numbers compared as doubles
pub fn json_eq(a: &Value, b: &Value) -> bool {
    match (a, b) {
        (Value::Number(x), Value::Number(y)) => x.as_f64() == y.as_f64(),
        (Value::Array(x), Value::Array(y)) => x.len() == y.len() && x.iter().zip(y).all(|(p, q)| json_eq(p, q)),
        (Value::Object(x), Value::Object(y)) => {
            x.len() == y.len() && x.iter().all(|(k, v)| y.get(k).map_or(false, |w| json_eq(v, w)))
        }
        _ => a == b,
    }
}
