//! Expectations on step outcomes; the common currency of live oracles and stored repros.
use crate::dump;
use crate::proto::*;
use serde::{Deserialize, Serialize};
use serde_json::Value;

#[derive(Serialize, Deserialize, Clone, Debug, PartialEq)]
#[serde(tag = "e", rename_all = "snake_case")]
pub enum Expect {
    /// a value whose dump matches
    Dump { dump: Value },
    /// an error value (any message, or exactly this one)
    Error { msg: Option<String> },
    /// a value matching the dump, or an error value
    DumpOrError { dump: Value },
    /// a violation of this kind (Debug rendering, e.g. "MaximumSearch")
    Violation { v: String },
    /// anything except a panic / abort / lost reply
    NoPanic,
    /// a value or an error value (no violation, no panic)
    ValueOrError,
    /// step reports Done
    Done,
    /// compile error of one of these classes
    CompileError { classes: Vec<String> },
    /// any of the alternatives
    OneOf { alts: Vec<Expect> },
}

pub fn satisfied(e: &Expect, o: &Out) -> bool {
    match e {
        Expect::Dump { dump: d } => match o {
            Out::Value { dump: od } => dump::matches(d, od),
            _ => false,
        },
        Expect::Error { msg } => match o {
            Out::Error { msg: om } => msg.as_ref().map_or(true, |m| m == om),
            _ => false,
        },
        Expect::DumpOrError { dump: d } => match o {
            Out::Value { dump: od } => dump::matches(d, od),
            Out::Error { .. } => true,
            _ => false,
        },
        Expect::Violation { v } => matches!(o, Out::Violation { v: ov } if ov == v),
        Expect::NoPanic => !matches!(o, Out::Panic { .. } | Out::Skipped),
        Expect::ValueOrError => matches!(o, Out::Value { .. } | Out::Error { .. } | Out::Done),
        Expect::Done => matches!(o, Out::Done),
        Expect::CompileError { classes } => {
            matches!(o, Out::CompileError { class, .. } if classes.is_empty() || classes.contains(class))
        }
        Expect::OneOf { alts } => alts.iter().any(|a| satisfied(a, o)),
    }
}

/// short, stable description of an outcome (used in failure signatures)
pub fn brief(o: &Out) -> String {
    match o {
        Out::Value { dump: d } => {
            let mut s = dump::strip(d).to_string();
            if s.len() > 200 {
                s.truncate(200);
                s.push('…');
            }
            format!("value {s}")
        }
        Out::Error { msg } => format!("error {msg:?}"),
        Out::Violation { v } => format!("violation {v}"),
        Out::Panic { msg, loc } => format!("panic {msg:?} at {loc}"),
        Out::CompileError { class, .. } => format!("compile error [{class}]"),
        other => other.class().to_string(),
    }
}
