//! G-std: type-directed generation of expressions over the whole standard library.
//! The function table is read from the interpreter (hook `verif_root_functions`), so the
//! generator follows the library.
use crate::tape::Tape;
use serde::{Deserialize, Serialize};
use serde_json::Value;
use std::collections::{BTreeMap, HashMap};

#[derive(Clone, Debug, PartialEq, Eq, Hash, Serialize, Deserialize)]
pub enum Ty {
    Int,
    Float,
    Bool,
    Str,
    Unknown,
    Var(String),
    Native(String, Vec<Ty>),
    Tuple(Vec<Ty>),
    Callable(Vec<Ty>, Box<Ty>),
    /// kind ("struct"/"union"), name, generic arguments
    Compound(String, String, Vec<Ty>),
}

#[derive(Clone, Debug, PartialEq, Serialize, Deserialize)]
pub struct CompoundDef {
    pub kind: String,
    pub generics: Vec<String>,
    pub fields: Vec<(String, Ty)>,
}

#[derive(Clone, Debug)]
pub struct FnSig {
    pub name: String,
    pub generics: Vec<String>,
    pub params: Vec<(Ty, bool)>,
    pub ret: Ty,
}

#[derive(Clone, Debug, Default)]
pub struct Lib {
    pub fns: Vec<FnSig>,
    pub dynamic: Vec<String>,
    pub compounds: BTreeMap<String, CompoundDef>,
}

pub fn seq(t: Ty) -> Ty {
    Ty::Native("Sequence".into(), vec![t])
}
pub fn opt(t: Ty) -> Ty {
    Ty::Native("Optional".into(), vec![t])
}
pub fn gen_ty(t: Ty) -> Ty {
    Ty::Native("Generator".into(), vec![t])
}

impl Ty {
    pub fn from_json(v: &Value, compounds: &mut BTreeMap<String, CompoundDef>) -> Ty {
        let list = |k: &str, c: &mut BTreeMap<String, CompoundDef>| -> Vec<Ty> {
            v[k].as_array()
                .map(|a| a.iter().map(|x| Ty::from_json(x, c)).collect())
                .unwrap_or_default()
        };
        match v["k"].as_str().unwrap_or("") {
            "int" => Ty::Int,
            "float" => Ty::Float,
            "bool" => Ty::Bool,
            "str" => Ty::Str,
            "unknown" => Ty::Unknown,
            "generic" => Ty::Var(v["name"].as_str().unwrap_or("T").to_string()),
            "tuple" => Ty::Tuple(list("items", compounds)),
            "native" => Ty::Native(v["name"].as_str().unwrap_or("").to_string(), list("args", compounds)),
            "callable" => Ty::Callable(
                list("params", compounds),
                Box::new(Ty::from_json(&v["ret"], compounds)),
            ),
            "func" => {
                let params = v["params"]
                    .as_array()
                    .map(|a| a.iter().map(|p| Ty::from_json(&p["type"], compounds)).collect())
                    .unwrap_or_default();
                Ty::Callable(params, Box::new(Ty::from_json(&v["ret"], compounds)))
            }
            k @ ("struct" | "union") => {
                let name = v["name"].as_str().unwrap_or("").to_string();
                if let Some(fields) = v["fields"].as_array() {
                    if !compounds.contains_key(&name) {
                        // reserve the slot first: recursive compounds
                        compounds.insert(
                            name.clone(),
                            CompoundDef {
                                kind: k.to_string(),
                                generics: vec![],
                                fields: vec![],
                            },
                        );
                        let fs: Vec<(String, Ty)> = fields
                            .iter()
                            .map(|f| {
                                (
                                    f["name"].as_str().unwrap_or("").to_string(),
                                    Ty::from_json(&f["type"], compounds),
                                )
                            })
                            .collect();
                        let generics = v["generic_names"]
                            .as_array()
                            .map(|a| a.iter().filter_map(|s| s.as_str().map(String::from)).collect())
                            .unwrap_or_default();
                        compounds.insert(
                            name.clone(),
                            CompoundDef {
                                kind: k.to_string(),
                                generics,
                                fields: fs,
                            },
                        );
                    }
                }
                Ty::Compound(k.to_string(), name, list("args", compounds))
            }
            _ => Ty::Unknown,
        }
    }

    pub fn src(&self) -> String {
        match self {
            Ty::Int => "int".into(),
            Ty::Float => "float".into(),
            Ty::Bool => "bool".into(),
            Ty::Str => "str".into(),
            Ty::Unknown => "?".into(),
            Ty::Var(n) => n.clone(),
            Ty::Native(n, args) | Ty::Compound(_, n, args) => {
                if args.is_empty() {
                    n.clone()
                } else {
                    format!("{}<{}>", n, args.iter().map(|a| a.src()).collect::<Vec<_>>().join(", "))
                }
            }
            Ty::Tuple(items) => format!("({})", items.iter().map(|a| a.src()).collect::<Vec<_>>().join(", ")),
            Ty::Callable(ps, r) => format!(
                "({})->({})",
                ps.iter().map(|a| a.src()).collect::<Vec<_>>().join(", "),
                r.src()
            ),
        }
    }

    pub fn has_unknown_or_var(&self) -> bool {
        match self {
            Ty::Unknown | Ty::Var(_) => true,
            Ty::Native(_, a) | Ty::Compound(_, _, a) | Ty::Tuple(a) => a.iter().any(|x| x.has_unknown_or_var()),
            Ty::Callable(p, r) => p.iter().any(|x| x.has_unknown_or_var()) || r.has_unknown_or_var(),
            _ => false,
        }
    }

    pub fn subst(&self, b: &HashMap<String, Ty>) -> Ty {
        match self {
            Ty::Var(n) => b.get(n).cloned().unwrap_or_else(|| self.clone()),
            Ty::Native(n, a) => Ty::Native(n.clone(), a.iter().map(|x| x.subst(b)).collect()),
            Ty::Compound(k, n, a) => Ty::Compound(k.clone(), n.clone(), a.iter().map(|x| x.subst(b)).collect()),
            Ty::Tuple(a) => Ty::Tuple(a.iter().map(|x| x.subst(b)).collect()),
            Ty::Callable(p, r) => Ty::Callable(p.iter().map(|x| x.subst(b)).collect(), Box::new(r.subst(b))),
            _ => self.clone(),
        }
    }

    /// does the type mention float anywhere (through compounds too)?
    pub fn mentions_float(&self, lib: &Lib, depth: u32) -> bool {
        match self {
            Ty::Float => true,
            Ty::Native(_, a) | Ty::Tuple(a) => a.iter().any(|x| x.mentions_float(lib, depth)),
            Ty::Compound(_, n, a) => {
                a.iter().any(|x| x.mentions_float(lib, depth))
                    || (depth > 0
                        && lib
                            .compounds
                            .get(n)
                            .map_or(false, |d| d.fields.iter().any(|(_, t)| t.mentions_float(lib, depth - 1))))
            }
            _ => false,
        }
    }
}

/// bind the generic variables `generics` of `pattern` so that it equals `target`
/// (`unknown` inside the pattern fits anything)
pub fn unify(pattern: &Ty, target: &Ty, generics: &[String], b: &mut HashMap<String, Ty>) -> bool {
    match (pattern, target) {
        (Ty::Unknown, _) => true,
        (Ty::Var(n), _) if generics.contains(n) => match b.get(n) {
            Some(t) => t == target,
            None => {
                b.insert(n.clone(), target.clone());
                true
            }
        },
        (Ty::Native(n0, a0), Ty::Native(n1, a1)) => {
            n0 == n1 && a0.len() == a1.len() && a0.iter().zip(a1).all(|(x, y)| unify(x, y, generics, b))
        }
        (Ty::Compound(_, n0, a0), Ty::Compound(_, n1, a1)) => {
            n0 == n1 && a0.len() == a1.len() && a0.iter().zip(a1).all(|(x, y)| unify(x, y, generics, b))
        }
        (Ty::Tuple(a0), Ty::Tuple(a1)) => {
            a0.len() == a1.len() && a0.iter().zip(a1).all(|(x, y)| unify(x, y, generics, b))
        }
        (Ty::Callable(p0, r0), Ty::Callable(p1, r1)) => {
            p0.len() == p1.len()
                && p0.iter().zip(p1).all(|(x, y)| unify(x, y, generics, b))
                && unify(r0, r1, generics, b)
        }
        (a, b2) => a == b2,
    }
}

impl Lib {
    pub fn from_json(v: &Value) -> Lib {
        let mut lib = Lib::default();
        for f in v.as_array().cloned().unwrap_or_default() {
            let name = f["name"].as_str().unwrap_or("").to_string();
            if f.get("dynamic").is_some() {
                lib.dynamic.push(name);
                continue;
            }
            let spec = &f["spec"];
            let generics: Vec<String> = spec["generics"]
                .as_array()
                .map(|a| a.iter().filter_map(|s| s.as_str().map(String::from)).collect())
                .unwrap_or_default();
            let params = spec["params"]
                .as_array()
                .map(|a| {
                    a.iter()
                        .map(|p| {
                            (
                                Ty::from_json(&p["type"], &mut lib.compounds),
                                p["required"].as_bool().unwrap_or(true),
                            )
                        })
                        .collect()
                })
                .unwrap_or_default();
            let ret = Ty::from_json(&spec["ret"], &mut lib.compounds);
            lib.fns.push(FnSig {
                name,
                generics,
                params,
                ret,
            });
        }
        lib.fns.sort_by(|a, b| (a.name.as_str(), a.params.len()).cmp(&(b.name.as_str(), b.params.len())));
        lib
    }
}

/// functions never called by generated programs: effects and host interaction are the
/// business of C11, `error`/`assert`/`debug` only add noise
pub const AVOID: &[&str] = &[
    "sleep", "__std_sleep", "now", "__std_unix_now", "random", "sample", "shuffle", "random_choices", "regex",
    "display", "debug", "assert", "error", "match", "search", "__std_match", "__std_group_names", "_named_groups",
    "cast",
];

pub struct GenCfg {
    /// probability (of 256) that an inner node is a library call rather than a leaf
    pub call_chance: u8,
    pub int_pool: Vec<String>,
    pub float_pool: Vec<String>,
    pub str_pool: Vec<String>,
    /// leaves of container type are empty (sequences, optionals, hence sets / mappings / ...)
    pub empty_containers: bool,
}

pub struct Gen<'a, 'b> {
    pub lib: &'a Lib,
    pub t: &'a mut Tape<'b>,
    pub cfg: &'a GenCfg,
    /// variables in scope
    pub env: Vec<(String, Ty)>,
    pub counter: u32,
    /// library functions used by the generated expression
    pub used: Vec<String>,
    /// functions avoided because an open known finding lists them
    pub excluded_fns: Vec<String>,
    /// draws redirected because of `excluded_fns`
    pub redirected: u32,
}

const SIMPLE_TYPES: &[fn() -> Ty] = &[
    || Ty::Int,
    || Ty::Float,
    || Ty::Str,
    || Ty::Bool,
    || Ty::Tuple(vec![Ty::Int, Ty::Float]),
    || seq(Ty::Int),
    || opt(Ty::Int),
    || seq(Ty::Float),
    || Ty::Tuple(vec![Ty::Str, Ty::Int]),
];

impl<'a, 'b> Gen<'a, 'b> {
    pub fn concrete(&mut self) -> Ty {
        (self.t.pick(SIMPLE_TYPES))()
    }

    /// replace remaining variables / unknowns of a type by concrete types
    pub fn concretize(&mut self, ty: &Ty) -> Ty {
        match ty {
            Ty::Unknown | Ty::Var(_) => self.concrete(),
            Ty::Native(n, a) => Ty::Native(n.clone(), a.iter().map(|x| self.concretize(x)).collect()),
            Ty::Compound(k, n, a) => Ty::Compound(k.clone(), n.clone(), a.iter().map(|x| self.concretize(x)).collect()),
            Ty::Tuple(a) => Ty::Tuple(a.iter().map(|x| self.concretize(x)).collect()),
            Ty::Callable(p, r) => Ty::Callable(
                p.iter().map(|x| self.concretize(x)).collect(),
                Box::new(self.concretize(r)),
            ),
            t => t.clone(),
        }
    }

    fn hashable(ty: &Ty) -> bool {
        match ty {
            Ty::Int | Ty::Str | Ty::Bool => true,
            Ty::Tuple(a) => a.iter().all(Self::hashable),
            _ => false,
        }
    }

    fn leaf(&mut self, ty: &Ty, fuel: u32) -> String {
        match ty {
            Ty::Int => self.t.pick(&self.cfg.int_pool).clone(),
            Ty::Float => self.t.pick(&self.cfg.float_pool).clone(),
            Ty::Bool => (if self.t.bool() { "true" } else { "false" }).to_string(),
            Ty::Str => self.t.pick(&self.cfg.str_pool).clone(),
            Ty::Unknown | Ty::Var(_) => "0".into(),
            Ty::Tuple(items) => {
                let parts: Vec<String> = items.iter().map(|i| self.expr(i, fuel.saturating_sub(1))).collect();
                if parts.len() == 1 {
                    format!("({},)", parts[0])
                } else {
                    format!("({})", parts.join(", "))
                }
            }
            Ty::Callable(params, ret) => {
                let base = self.counter;
                self.counter += params.len() as u32 + 1;
                let names: Vec<String> = (0..params.len()).map(|i| format!("p{}", base + i as u32)).collect();
                let saved = self.env.len();
                for (n, p) in names.iter().zip(params) {
                    self.env.push((n.clone(), p.clone()));
                }
                let body = self.expr(ret, fuel.saturating_sub(1));
                self.env.truncate(saved);
                format!(
                    "({}) -> {{ {} }}",
                    names
                        .iter()
                        .zip(params)
                        .map(|(n, p)| format!("{n}: {}", p.src()))
                        .collect::<Vec<_>>()
                        .join(", "),
                    body
                )
            }
            Ty::Native(name, args) => match (name.as_str(), args.as_slice()) {
                ("Sequence", [el]) => {
                    let n = if self.cfg.empty_containers { 0 } else { self.t.below(4) };
                    if n == 0 && matches!(el, Ty::Int) && !self.cfg.empty_containers && self.t.bool() {
                        return format!("range({})", self.t.range(0, 6));
                    }
                    let parts: Vec<String> = (0..n).map(|_| self.expr(el, fuel.saturating_sub(1))).collect();
                    if parts.is_empty() {
                        // an empty literal has element type unknown; give it the right type
                        format!("take([{}], 0)", self.expr(el, 0))
                    } else {
                        format!("[{}]", parts.join(", "))
                    }
                }
                ("Optional", [el]) => {
                    if self.cfg.empty_containers || self.t.below(4) == 0 {
                        // none() is Optional<unknown>, assignable to any optional
                        format!("then(false, {})", self.expr(el, 0))
                    } else {
                        format!("some({})", self.expr(el, fuel.saturating_sub(1)))
                    }
                }
                ("Generator", [el]) => {
                    let s = self.leaf(&seq(el.clone()), fuel);
                    format!("({s}).to_generator()")
                }
                ("Stack", [el]) => {
                    let s = self.leaf(&seq(el.clone()), fuel);
                    format!("({s}).to_stack()")
                }
                ("Set", [el]) => {
                    let s = self.leaf(&seq(el.clone()), fuel);
                    if Self::hashable(el) {
                        format!("set<{}>().update({s})", el.src())
                    } else {
                        format!(
                            "set((x: {0}) -> {{ 0 }}, (a: {0}, b: {0}) -> {{ true }}).update({s})",
                            el.src()
                        )
                    }
                }
                ("Mapping", [k, v]) => {
                    let s = self.leaf(&seq(Ty::Tuple(vec![k.clone(), v.clone()])), fuel);
                    if Self::hashable(k) {
                        format!("mapping<{}>().update({s})", k.src())
                    } else {
                        format!(
                            "mapping((x: {0}) -> {{ 0 }}, (a: {0}, b: {0}) -> {{ true }}).update({s})",
                            k.src()
                        )
                    }
                }
                ("ContinuousDistribution", []) => {
                    let a = self.expr(&Ty::Float, 0);
                    let b = self.expr(&Ty::Float, 0);
                    self.t
                        .pick(&[
                            format!("normal_distribution({a}, {b})"),
                            format!("rectangular_distribution({a}, {b})"),
                            format!("exp_distribution({a})"),
                            format!("gamma_distribution({a}, {b})"),
                            format!("beta_distribution({a}, {b})"),
                            format!("weibull_distribution({a}, {b})"),
                            format!("lognormal_distribution({a}, {b})"),
                            "standard_uniform_distribution()".to_string(),
                        ])
                        .clone()
                }
                ("DiscreteDistribution", []) => {
                    let a = self.expr(&Ty::Int, 0);
                    let p = self.expr(&Ty::Float, 0);
                    self.t
                        .pick(&[
                            format!("binomial_distribution({a}, {p})"),
                            format!("poisson_distribution({p})"),
                            format!("uniform_distribution({a}, {a} + 5)"),
                            format!("geometric_distribution({p})"),
                        ])
                        .clone()
                }
                _ => self.via_call(ty, fuel.max(1)).unwrap_or_else(|| "0".into()),
            },
            Ty::Compound(kind, name, args) => {
                let Some(def) = self.lib.compounds.get(name).cloned() else {
                    return self.via_call(ty, fuel.max(1)).unwrap_or_else(|| "0".into());
                };
                let b: HashMap<String, Ty> = def.generics.iter().cloned().zip(args.iter().cloned()).collect();
                if kind == "struct" {
                    if fuel == 0 && def.fields.iter().any(|(_, t)| matches!(t, Ty::Compound(_, n, _) if n == name)) {
                        return "0".into();
                    }
                    let parts: Vec<String> = def
                        .fields
                        .iter()
                        .map(|(_, t)| self.expr(&t.subst(&b), fuel.saturating_sub(1)))
                        .collect();
                    format!("{}({})", name, parts.join(", "))
                } else {
                    // prefer a non-recursive variant when out of fuel
                    let mut idxs: Vec<usize> = (0..def.fields.len()).collect();
                    if fuel == 0 {
                        idxs.retain(|i| !format!("{:?}", def.fields[*i].1).contains(name.as_str()));
                    }
                    if idxs.is_empty() {
                        return "0".into();
                    }
                    let i = *self.t.pick(&idxs);
                    let (vn, vt) = &def.fields[i];
                    format!("{}::{}({})", name, vn, self.expr(&vt.subst(&b), fuel.saturating_sub(1)))
                }
            }
        }
    }

    /// an expression of type `ty` obtained by calling a library function
    fn via_call(&mut self, ty: &Ty, fuel: u32) -> Option<String> {
        let mut cands: Vec<(usize, HashMap<String, Ty>)> = Vec::new();
        for (i, f) in self.lib.fns.iter().enumerate() {
            if AVOID.contains(&f.name.as_str()) || f.name.starts_with("__") {
                continue;
            }
            if self.excluded_fns.contains(&f.name) {
                self.redirected += 1;
                continue;
            }
            // a bare generic result (if, or, reduce, ...) would match everything: rare
            if matches!(f.ret, Ty::Var(_) | Ty::Unknown) {
                continue;
            }
            let mut b = HashMap::new();
            if unify(&f.ret, ty, &f.generics, &mut b) {
                cands.push((i, b));
            }
        }
        if cands.is_empty() {
            return None;
        }
        let (i, b) = cands[self.t.below(cands.len())].clone();
        Some(self.call(i, b, fuel))
    }

    /// a call of library function `i` with generic binding `b` (completed at random)
    pub fn call(&mut self, i: usize, mut b: HashMap<String, Ty>, fuel: u32) -> String {
        let f = self.lib.fns[i].clone();
        for g in &f.generics {
            if !b.contains_key(g) {
                let c = self.concrete();
                b.insert(g.clone(), c);
            }
        }
        let required = f.params.iter().take_while(|p| p.1).count();
        let n = required + self.t.below(f.params.len() - required + 1);
        let args: Vec<String> = f.params[..n]
            .iter()
            .map(|(p, _)| {
                let pt = self.concretize(&p.subst(&b));
                self.expr(&pt, fuel.saturating_sub(1))
            })
            .collect();
        self.used.push(f.name.clone());
        if !args.is_empty() && self.t.below(3) == 0 {
            format!("({}).{}({})", args[0], f.name, args[1..].join(", "))
        } else {
            format!("{}({})", f.name, args.join(", "))
        }
    }

    pub fn expr(&mut self, ty: &Ty, fuel: u32) -> String {
        // a variable of the right type
        let vars: Vec<String> = self.env.iter().filter(|(_, t)| t == ty).map(|(n, _)| n.clone()).collect();
        if !vars.is_empty() && self.t.below(3) != 0 {
            return self.t.pick(&vars).clone();
        }
        if fuel > 0 && self.t.chance(self.cfg.call_chance) {
            if let Some(c) = self.via_call(ty, fuel) {
                return c;
            }
        }
        self.leaf(ty, fuel)
    }
}

/// does a dumped value have the shape of the static type?  Error elements conform to
/// anything.  Returns a description of the first mismatch.
pub fn conforms(dump: &Value, ty: &Ty, lib_compounds: &BTreeMap<String, CompoundDef>, depth: u32) -> Result<(), String> {
    conforms_in(dump, ty, lib_compounds, depth, false)
}

/// `in_decl`: we are inside the declared field types of a compound, where the library
/// itself writes `unknown` for a recursive occurrence (JSON arrays/objects): a wildcard
fn conforms_in(
    dump: &Value,
    ty: &Ty,
    lib_compounds: &BTreeMap<String, CompoundDef>,
    depth: u32,
    in_decl: bool,
) -> Result<(), String> {
    let conforms = |d: &Value, t: &Ty, c: &BTreeMap<String, CompoundDef>, dep: u32| conforms_in(d, t, c, dep, in_decl);
    let Some(o) = dump.as_object() else { return Err(format!("not a dump node: {dump}")) };
    if o.contains_key("err") || o.contains_key("cut") {
        return Ok(());
    }
    let bad = || Err(format!("value {} does not have type {}", crate::dump::strip(dump), ty.src()));
    let each = |k: &str, t: &Ty| -> Result<(), String> {
        for x in o.get(k).and_then(|a| a.as_array()).cloned().unwrap_or_default() {
            conforms(&x, t, lib_compounds, depth + 1)?;
        }
        Ok(())
    };
    match ty {
        Ty::Int => o.contains_key("i").then_some(()).map_or_else(bad, Ok),
        Ty::Float => o.contains_key("f").then_some(()).map_or_else(bad, Ok),
        Ty::Bool => o.contains_key("b").then_some(()).map_or_else(bad, Ok),
        Ty::Str => o.contains_key("s").then_some(()).map_or_else(bad, Ok),
        Ty::Callable(..) => o.contains_key("fn").then_some(()).map_or_else(bad, Ok),
        // a value of the bottom type can only be an error
        Ty::Unknown => {
            if in_decl {
                Ok(())
            } else {
                bad()
            }
        }
        // an opaque generic parameter: nothing to check
        Ty::Var(_) => Ok(()),
        Ty::Tuple(items) => {
            let Some(st) = o.get("st").and_then(|a| a.as_array()) else { return bad() };
            if st.len() != items.len() {
                return bad();
            }
            for (x, t) in st.iter().zip(items) {
                conforms(x, t, lib_compounds, depth + 1)?;
            }
            Ok(())
        }
        Ty::Native(name, args) => match (name.as_str(), args.as_slice()) {
            ("Sequence", [el]) => {
                if !o.contains_key("seq") {
                    return bad();
                }
                each("seq", el)
            }
            ("Generator", [el]) => {
                if !o.contains_key("gen") {
                    return bad();
                }
                each("gen", el)
            }
            ("Stack", [el]) => {
                if !o.contains_key("stack") {
                    return bad();
                }
                each("stack", el)
            }
            ("Set", [el]) => {
                if !o.contains_key("set") {
                    return bad();
                }
                each("set", el)
            }
            ("Optional", [el]) => match o.get("opt") {
                None => bad(),
                Some(Value::Null) => Ok(()),
                Some(x) => conforms(&x[0], el, lib_compounds, depth + 1),
            },
            ("Mapping", [k, v]) => {
                let Some(m) = o.get("map").and_then(|a| a.as_array()) else { return bad() };
                for kv in m {
                    conforms(&kv[0], k, lib_compounds, depth + 1)?;
                    conforms(&kv[1], v, lib_compounds, depth + 1)?;
                }
                Ok(())
            }
            _ => o.contains_key("opaque").then_some(()).map_or_else(bad, Ok),
        },
        Ty::Compound(kind, name, args) => {
            let Some(def) = lib_compounds.get(name) else { return Ok(()) };
            if depth > 10 {
                return Ok(());
            }
            let b: HashMap<String, Ty> = def.generics.iter().cloned().zip(args.iter().cloned()).collect();
            if kind == "struct" {
                let Some(st) = o.get("st").and_then(|a| a.as_array()) else { return bad() };
                if st.len() != def.fields.len() {
                    return bad();
                }
                for (x, (_, t)) in st.iter().zip(&def.fields) {
                    conforms_in(x, &t.subst(&b), lib_compounds, depth + 1, true)?;
                }
                Ok(())
            } else {
                let Some(un) = o.get("un").and_then(|a| a.as_array()) else { return bad() };
                let tag = un[0].as_u64().unwrap_or(u64::MAX) as usize;
                let Some((_, t)) = def.fields.get(tag) else { return bad() };
                conforms_in(&un[1], &t.subst(&b), lib_compounds, depth + 1, true)
            }
        }
    }
}
