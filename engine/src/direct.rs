//! Generic self-contained reproductions: a job plus expectations on its steps.
use crate::expect::{brief, satisfied, Expect};
use crate::pool::HarnessError;
use crate::proto::*;
use crate::runner::{Ctx, Failure};
use serde_json::{json, Value};

pub fn make_direct(job: &Job, expects: &[(usize, Expect)]) -> Value {
    json!({"form": "expect", "job": job, "expects": expects})
}

/// describe how the child ended when it did not end normally
pub fn end_failure(reply: &Reply) -> Option<Failure> {
    match &reply.end {
        End::Ok => None,
        End::Abort { how } => Some(
            Failure::new("abort", format!("interpreter process died: {how} (in step {:?})", reply.died_in))
                .key("how", how.split(';').next().unwrap_or("").to_string()),
        ),
        End::CpuTimeout => Some(Failure::new(
            "timeout",
            format!("CPU budget exceeded in step {:?}", reply.died_in),
        )),
        End::Memory => Some(Failure::new(
            "memory",
            format!("address-space limit exceeded in step {:?}", reply.died_in),
        )),
        End::WallTimeout => None,
    }
}

/// run the job and return the unmet expectations
pub fn run_expects(
    job: &Job,
    expects: &[(usize, Expect)],
    ctx: &mut Ctx,
) -> Result<(Reply, Vec<(usize, String)>), HarnessError> {
    let reply = ctx.exec(job)?;
    let mut unmet = Vec::new();
    for (idx, e) in expects {
        let out = reply.step(*idx);
        if !satisfied(e, out) {
            unmet.push((*idx, brief(out)));
        }
    }
    Ok((reply, unmet))
}

pub fn check_generic(direct: &Value, ctx: &mut Ctx) -> Result<Option<Failure>, HarnessError> {
    match direct["form"].as_str() {
        Some("expect") => {
            let job: Job = serde_json::from_value(direct["job"].clone())
                .map_err(|e| HarnessError(format!("bad direct job: {e}")))?;
            let expects: Vec<(usize, Expect)> = serde_json::from_value(direct["expects"].clone())
                .map_err(|e| HarnessError(format!("bad direct expects: {e}")))?;
            let (reply, unmet) = run_expects(&job, &expects, ctx)?;
            if let Some(f) = end_failure(&reply) {
                return Ok(Some(f.direct(direct.clone())));
            }
            if let Some((idx, got)) = unmet.first() {
                return Ok(Some(
                    Failure::new("expectation", format!("step {idx}: observed {got}")).direct(direct.clone()),
                ));
            }
            Ok(None)
        }
        Some("no_crash") => {
            let job: Job = serde_json::from_value(direct["job"].clone())
                .map_err(|e| HarnessError(format!("bad direct job: {e}")))?;
            let reply = ctx.exec(&job)?;
            if let Some(f) = end_failure(&reply) {
                return Ok(Some(f.direct(direct.clone())));
            }
            for (i, s) in reply.steps.iter().enumerate() {
                if let Out::Panic { msg, loc } = s {
                    return Ok(Some(
                        Failure::new("panic", format!("step {i} panicked: {msg} at {loc}")).direct(direct.clone()),
                    ));
                }
            }
            Ok(None)
        }
        _ => Ok(None),
    }
}
