//! Byte tape in the style of `arbitrary::Unstructured`: total decoders, the all-zero /
//! exhausted tape decodes to the simplest alternative, indices are mapped monotonically.
pub struct Tape<'a> {
    data: &'a [u8],
    pos: usize,
}

impl<'a> Tape<'a> {
    pub fn new(data: &'a [u8]) -> Self {
        Tape { data, pos: 0 }
    }
    pub fn exhausted(&self) -> bool {
        self.pos >= self.data.len()
    }
    pub fn byte(&mut self) -> u8 {
        let b = self.data.get(self.pos).copied().unwrap_or(0);
        self.pos += 1;
        b
    }
    pub fn u16(&mut self) -> u16 {
        let hi = self.byte() as u16;
        let lo = self.byte() as u16;
        (hi << 8) | lo
    }
    pub fn u32(&mut self) -> u32 {
        ((self.u16() as u32) << 16) | self.u16() as u32
    }
    pub fn u64(&mut self) -> u64 {
        ((self.u32() as u64) << 32) | self.u32() as u64
    }
    /// uniform-ish index in 0..n, monotone in the tape bytes (0 for the zero tape)
    pub fn below(&mut self, n: usize) -> usize {
        if n <= 1 {
            return 0;
        }
        if n <= 256 {
            (self.byte() as usize * n) >> 8
        } else {
            (self.u16() as usize * n) >> 16
        }
    }
    pub fn bool(&mut self) -> bool {
        self.byte() & 1 == 1
    }
    /// true with probability about num/256
    pub fn chance(&mut self, num: u8) -> bool {
        let b = self.byte();
        b != 0 && b >= (255 - num.saturating_sub(1))
    }
    pub fn pick<'b, T>(&mut self, items: &'b [T]) -> &'b T {
        &items[self.below(items.len())]
    }
    /// integer in lo..=hi (lo for the zero tape)
    pub fn range(&mut self, lo: i64, hi: i64) -> i64 {
        if hi <= lo {
            return lo;
        }
        let span = (hi - lo) as u128 + 1;
        if span <= 256 {
            lo + ((self.byte() as u128 * span) >> 8) as i64
        } else if span <= 65536 {
            lo + ((self.u16() as u128 * span) >> 16) as i64
        } else {
            lo + ((self.u64() as u128 * span) >> 64) as i64
        }
    }
}

pub fn hex(data: &[u8]) -> String {
    data.iter().map(|b| format!("{b:02x}")).collect()
}

pub fn unhex(s: &str) -> Vec<u8> {
    (0..s.len() / 2)
        .filter_map(|i| u8::from_str_radix(&s[2 * i..2 * i + 2], 16).ok())
        .collect()
}

pub fn fnv(data: &[u8]) -> u64 {
    let mut h: u64 = 0xcbf29ce484222325;
    for b in data {
        h ^= *b as u64;
        h = h.wrapping_mul(0x100000001b3);
    }
    h
}

pub fn mix(a: u64, b: u64) -> u64 {
    let mut z = a ^ b.wrapping_mul(0x9E37_79B9_7F4A_7C15).rotate_left(31);
    z = (z ^ (z >> 30)).wrapping_mul(0xBF58_476D_1CE4_E5B9);
    z = (z ^ (z >> 27)).wrapping_mul(0x94D0_49BB_1331_11EB);
    z ^ (z >> 31)
}
