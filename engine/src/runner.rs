//! Generic check driver: shards, proptest-driven tapes, shrinking, known findings,
//! replay files and evidence.
use crate::pool::{HarnessError, Worker};
use crate::proto::*;
use crate::tape::{fnv, hex, mix, unhex};
use proptest::collection::vec;
use proptest::prelude::*;
use proptest::test_runner::{Config, RngAlgorithm, RngSeed, TestCaseError, TestError, TestRunner};
use serde_json::{json, Value};
use std::cell::RefCell;
use std::collections::{BTreeMap, HashSet};
use std::sync::atomic::{AtomicBool, Ordering};
use std::sync::Mutex;
use std::time::Instant;

pub const SHARDS: u64 = 12;
pub const VERIF: &str = "/verif";

#[derive(Clone, Copy, PartialEq, Eq, Debug)]
pub enum Tier {
    Quick,
    Thorough,
}

#[derive(Clone, Debug)]
pub struct Failure {
    /// predicate name, e.g. "value_mismatch", "panic", "abort", "timeout"
    pub kind: String,
    /// decoded-case facts a known finding may key on
    pub keys: BTreeMap<String, String>,
    pub message: String,
    /// self-contained reproduction understood by `Property::check_direct`
    pub direct: Value,
}

impl Failure {
    pub fn new(kind: &str, message: impl Into<String>) -> Self {
        Failure {
            kind: kind.to_string(),
            keys: BTreeMap::new(),
            message: message.into(),
            direct: Value::Null,
        }
    }
    pub fn key(mut self, k: &str, v: impl Into<String>) -> Self {
        self.keys.insert(k.to_string(), v.into());
        self
    }
    pub fn direct(mut self, d: Value) -> Self {
        self.direct = d;
        self
    }
    pub fn to_json(&self) -> Value {
        json!({"kind": self.kind, "keys": self.keys, "message": self.message, "direct": self.direct})
    }
}

#[derive(Clone, Debug, Default)]
pub struct CaseOutcome {
    /// hash of the decoded case
    pub key: u64,
    pub nontrivial: bool,
    pub classes: Vec<String>,
    pub sample: Option<Value>,
    pub failures: Vec<Failure>,
    pub inconclusive: bool,
    pub underspecified: bool,
    pub excluded: u32,
    /// number of interpreter executions this case needed
    pub evals: u64,
}

#[derive(Clone, Debug)]
pub struct Family {
    pub name: &'static str,
    /// batches for the whole run (split over the shards)
    pub batches: u64,
    pub batch_size: usize,
    pub tape_len: usize,
}

pub struct Finding {
    pub id: String,
    pub property: String,
    pub status: String,
    pub title: String,
    pub kind: String,
    pub keys: BTreeMap<String, String>,
    pub repro: Value,
    pub exclude: Vec<String>,
}

pub struct Findings {
    pub all: Vec<Finding>,
}

impl Findings {
    pub fn load(property: &str) -> Self {
        let path = format!("{VERIF}/known_findings.json");
        let mut all = Vec::new();
        if let Ok(text) = std::fs::read_to_string(&path) {
            if let Ok(v) = serde_json::from_str::<Value>(&text) {
                for f in v["findings"].as_array().cloned().unwrap_or_default() {
                    if f["property"].as_str() != Some(property) {
                        continue;
                    }
                    let keys = f["match"]["keys"]
                        .as_object()
                        .map(|o| {
                            o.iter()
                                .map(|(k, v)| (k.clone(), v.as_str().unwrap_or("").to_string()))
                                .collect()
                        })
                        .unwrap_or_default();
                    all.push(Finding {
                        id: f["id"].as_str().unwrap_or("").to_string(),
                        property: property.to_string(),
                        status: f["status"].as_str().unwrap_or("open").to_string(),
                        title: f["title"].as_str().unwrap_or("").to_string(),
                        kind: f["match"]["kind"].as_str().unwrap_or("").to_string(),
                        keys,
                        repro: f["repro"].clone(),
                        exclude: f["exclude"]
                            .as_array()
                            .map(|a| a.iter().filter_map(|s| s.as_str().map(String::from)).collect())
                            .unwrap_or_default(),
                    });
                }
            }
        }
        Findings { all }
    }

    /// the open finding that lists this failure, if any.  A key pattern is `a|b|c`
    /// alternatives, each a literal, `prefix*` or `~substring`.
    pub fn matching(&self, f: &Failure) -> Option<&Finding> {
        self.all.iter().find(|k| {
            k.status == "open"
                && k.kind == f.kind
                && k.keys.iter().all(|(key, pat)| {
                    f.keys.get(key).map_or(false, |val| {
                        pat.split('|').any(|p| {
                            if let Some(sub) = p.strip_prefix('~') {
                                val.contains(sub)
                            } else if let Some(pre) = p.strip_suffix('*') {
                                val.starts_with(pre)
                            } else {
                                p == val
                            }
                        })
                    })
                })
        })
    }

    pub fn excluded(&self, tag: &str) -> bool {
        self.all
            .iter()
            .any(|k| k.status == "open" && k.exclude.iter().any(|t| t == tag))
    }

    /// all exclusion tags of open findings that start with `prefix`, prefix removed
    pub fn excluded_with_prefix(&self, prefix: &str) -> Vec<String> {
        self.all
            .iter()
            .filter(|k| k.status == "open")
            .flat_map(|k| k.exclude.iter())
            .filter_map(|t| t.strip_prefix(prefix).map(String::from))
            .collect()
    }
}

pub struct Ctx<'a> {
    pub worker: Worker,
    pub findings: &'a Findings,
    pub tier: Tier,
    pub seed: u64,
    /// jobs executed
    pub jobs: u64,
}

impl<'a> Ctx<'a> {
    pub fn exec(&mut self, job: &Job) -> Result<Reply, HarnessError> {
        self.jobs += 1;
        let r = self.worker.exec(job)?;
        if r.end == End::WallTimeout {
            return Err(HarnessError("wall-clock backstop hit".into()));
        }
        Ok(r)
    }
    pub fn excluded(&self, tag: &str) -> bool {
        self.findings.excluded(tag)
    }
}

pub trait Property: Sync {
    fn id(&self) -> &'static str;
    fn level(&self) -> &'static str {
        "exploration"
    }
    fn rule(&self) -> String;
    fn assumptions(&self) -> Vec<String> {
        vec![]
    }
    fn families(&self, tier: Tier) -> Vec<Family>;
    fn run_batch(
        &self,
        family: &str,
        subs: &[Vec<u8>],
        ctx: &mut Ctx,
    ) -> Result<Vec<CaseOutcome>, HarnessError>;
    /// re-run a stored reproduction; Some(failure) if it still fails
    fn check_direct(&self, direct: &Value, ctx: &mut Ctx) -> Result<Option<Failure>, HarnessError> {
        crate::direct::check_generic(direct, ctx)
    }
    /// deterministic enumerations run once (by shard 0) before the random search
    fn enumerate(&self, _ctx: &mut Ctx, _tier: Tier) -> Result<Vec<CaseOutcome>, HarnessError> {
        Ok(vec![])
    }
    /// does `enumerate` cover a finite space completely?
    fn exhaustive_part(&self) -> Option<String> {
        None
    }
}

#[derive(Default)]
struct Stats {
    evaluations: u64,
    cases: u64,
    nontrivial: HashSet<u64>,
    classes: BTreeMap<String, u64>,
    samples: Vec<Value>,
    nontrivial_samples: Vec<Value>,
    inconclusive: u64,
    underspecified: u64,
    excluded: u64,
    known_seen: BTreeMap<String, u64>,
    jobs: u64,
    per_family: BTreeMap<String, u64>,
}

impl Stats {
    fn record(&mut self, family: &str, o: &CaseOutcome) {
        self.cases += 1;
        self.evaluations += o.evals.max(1);
        *self.per_family.entry(family.to_string()).or_default() += 1;
        if o.nontrivial {
            self.nontrivial.insert(o.key);
        }
        for c in &o.classes {
            *self.classes.entry(c.clone()).or_default() += 1;
        }
        if let Some(s) = &o.sample {
            if o.nontrivial && self.nontrivial_samples.len() < 4 {
                self.nontrivial_samples.push(s.clone());
            } else if self.samples.len() < 3 {
                self.samples.push(s.clone());
            }
        }
        if o.inconclusive {
            self.inconclusive += 1;
        }
        if o.underspecified {
            self.underspecified += 1;
        }
        self.excluded += o.excluded as u64;
    }
    fn merge(&mut self, other: Stats) {
        self.evaluations += other.evaluations;
        self.cases += other.cases;
        self.nontrivial.extend(other.nontrivial);
        for (k, v) in other.classes {
            *self.classes.entry(k).or_default() += v;
        }
        for s in other.samples {
            if self.samples.len() < 4 {
                self.samples.push(s)
            }
        }
        for s in other.nontrivial_samples {
            if self.nontrivial_samples.len() < 6 {
                self.nontrivial_samples.push(s)
            }
        }
        self.inconclusive += other.inconclusive;
        self.underspecified += other.underspecified;
        self.excluded += other.excluded;
        for (k, v) in other.known_seen {
            *self.known_seen.entry(k).or_default() += v;
        }
        self.jobs += other.jobs;
        for (k, v) in other.per_family {
            *self.per_family.entry(k).or_default() += v;
        }
    }
}

struct Violation {
    failure: Failure,
    family: String,
    shard: u64,
    subs: Vec<Vec<u8>>,
}

fn write_replay(prop: &str, seed: u64, v: &Violation) -> String {
    let _ = std::fs::create_dir_all(format!("{VERIF}/replays"));
    let sig = fnv(format!("{}{:?}{}", v.failure.kind, v.failure.keys, v.failure.message).as_bytes());
    let path = format!("{VERIF}/replays/{prop}-{sig:016x}.json");
    let body = json!({
        "property": prop,
        "seed": seed,
        "shard": v.shard,
        "family": v.family,
        "subs": v.subs.iter().map(|s| hex(s)).collect::<Vec<_>>(),
        "failure": v.failure.to_json(),
    });
    let _ = std::fs::write(&path, serde_json::to_string_pretty(&body).unwrap());
    path
}

fn shard_quota(total: u64, shard: u64) -> u64 {
    total / SHARDS + if shard < total % SHARDS { 1 } else { 0 }
}

/// run the known-finding reproductions of this property; returns violations (fixed findings
/// that fail again)
fn replay_findings(
    prop: &dyn Property,
    ctx: &mut Ctx,
    lines: &mut Vec<String>,
) -> Result<Vec<Violation>, HarnessError> {
    let mut out = Vec::new();
    for k in &ctx.findings.all {
        if k.repro.is_null() {
            continue;
        }
        let res = prop.check_direct(&k.repro, ctx)?;
        match (k.status.as_str(), res) {
            ("open", Some(_)) => lines.push(format!(
                "KNOWN-FINDING: property={} {} ({})",
                prop.id(),
                k.title,
                k.id
            )),
            ("open", None) => lines.push(format!(
                "note: listed finding {} no longer reproduces on this tree",
                k.id
            )),
            ("fixed", Some(f)) => out.push(Violation {
                failure: Failure {
                    message: format!("regression of fixed finding {}: {}", k.id, f.message),
                    ..f
                },
                family: "regression".into(),
                shard: 0,
                subs: vec![],
            }),
            _ => {}
        }
    }
    Ok(out)
}

pub fn run_check(prop: &dyn Property, tier: Tier, seed: u64) -> i32 {
    let t0 = Instant::now();
    let findings = Findings::load(prop.id());
    let families = prop.families(tier);
    let stop = AtomicBool::new(false);
    let harness_err: Mutex<Option<String>> = Mutex::new(None);
    let total = Mutex::new(Stats::default());
    let violations: Mutex<Vec<Violation>> = Mutex::new(Vec::new());
    let lines: Mutex<Vec<String>> = Mutex::new(Vec::new());
    // triage aid: XV_COLLECT=1 keeps searching after failures and tabulates their signatures
    let collect_mode = std::env::var("XV_COLLECT").is_ok();
    let collected: Mutex<BTreeMap<String, (u64, String)>> = Mutex::new(BTreeMap::new());

    std::thread::scope(|s| {
        for shard in 0..SHARDS {
            let (findings, families, stop, harness_err, total, violations, lines, collected) = (
                &findings,
                &families,
                &stop,
                &harness_err,
                &total,
                &violations,
                &lines,
                &collected,
            );
            s.spawn(move || {
                let worker = match Worker::spawn() {
                    Ok(w) => w,
                    Err(e) => {
                        *harness_err.lock().unwrap() = Some(e.0);
                        stop.store(true, Ordering::SeqCst);
                        return;
                    }
                };
                let ctx = RefCell::new(Ctx {
                    worker,
                    findings,
                    tier,
                    seed,
                    jobs: 0,
                });
                let stats = RefCell::new(Stats::default());
                let fail_harness = |e: HarnessError| {
                    *harness_err.lock().unwrap() = Some(e.0);
                    stop.store(true, Ordering::SeqCst);
                };
                if shard == 0 {
                    // listed findings first, then the deterministic enumerations
                    let mut l = Vec::new();
                    match replay_findings(prop, &mut ctx.borrow_mut(), &mut l) {
                        Ok(v) => violations.lock().unwrap().extend(v),
                        Err(e) => return fail_harness(e),
                    }
                    lines.lock().unwrap().extend(l);
                    match prop.enumerate(&mut ctx.borrow_mut(), tier) {
                        Ok(outs) => {
                            for o in outs {
                                stats.borrow_mut().record("enumerated", &o);
                                for f in &o.failures {
                                    if let Some(k) = findings.matching(f) {
                                        *stats.borrow_mut().known_seen.entry(k.id.clone()).or_default() += 1;
                                    } else {
                                        violations.lock().unwrap().push(Violation {
                                            failure: f.clone(),
                                            family: "enumerated".into(),
                                            shard,
                                            subs: vec![],
                                        });
                                    }
                                }
                            }
                        }
                        Err(e) => return fail_harness(e),
                    }
                }
                'fam: for fam in families.iter() {
                    let quota = shard_quota(fam.batches, shard);
                    if quota == 0 || stop.load(Ordering::SeqCst) {
                        continue;
                    }
                    // development aid: XV_FAMILY=name runs one family only
                    if std::env::var("XV_FAMILY").map_or(false, |f| f != fam.name) {
                        continue;
                    }
                    let shard_seed = mix(mix(seed, fnv(prop.id().as_bytes())), mix(fnv(fam.name.as_bytes()), shard));
                    let mut runner = TestRunner::new(Config {
                        cases: quota as u32,
                        rng_seed: RngSeed::Fixed(shard_seed),
                        rng_algorithm: RngAlgorithm::ChaCha,
                        failure_persistence: None,
                        max_shrink_iters: if tier == Tier::Quick { 250 } else { 600 },
                        // failures whose every re-evaluation is expensive (time-outs) must not shrink for hours
                        max_shrink_time: if tier == Tier::Quick { 60_000 } else { 180_000 },
                        max_global_rejects: 0,
                        max_local_rejects: 0,
                        verbose: 0,
                        ..Config::default()
                    });
                    let strategy = vec(vec(any::<u8>(), 0..=fam.tape_len), 1..=fam.batch_size);
                    let failed = RefCell::new(false);
                    let result = runner.run(&strategy, |subs| {
                        if stop.load(Ordering::SeqCst) && !*failed.borrow() {
                            return Ok(());
                        }
                        let outs = match prop.run_batch(fam.name, &subs, &mut ctx.borrow_mut()) {
                            Ok(o) => o,
                            Err(e) => {
                                *harness_err.lock().unwrap() = Some(e.0);
                                stop.store(true, Ordering::SeqCst);
                                return Ok(());
                            }
                        };
                        let counting = !*failed.borrow();
                        let mut bad: Option<String> = None;
                        for o in &outs {
                            if counting {
                                stats.borrow_mut().record(fam.name, o);
                            }
                            for f in &o.failures {
                                if let Some(k) = findings.matching(f) {
                                    if counting {
                                        *stats.borrow_mut().known_seen.entry(k.id.clone()).or_default() += 1;
                                    }
                                } else if collect_mode {
                                    let sig = format!("{} {:?}", f.kind, f.keys);
                                    let mut c = collected.lock().unwrap();
                                    let e = c.entry(sig).or_insert((0, f.message.clone()));
                                    e.0 += 1;
                                } else if bad.is_none() {
                                    bad = Some(f.kind.clone());
                                }
                            }
                        }
                        match bad {
                            Some(k) => {
                                *failed.borrow_mut() = true;
                                Err(TestCaseError::fail(k))
                            }
                            None => Ok(()),
                        }
                    });
                    if let Err(TestError::Fail(_, minimal)) = result {
                        // re-run the shrunk batch to get the failure in full
                        let outs = match prop.run_batch(fam.name, &minimal, &mut ctx.borrow_mut()) {
                            Ok(o) => o,
                            Err(e) => return fail_harness(e),
                        };
                        let f = outs
                            .iter()
                            .flat_map(|o| o.failures.iter())
                            .find(|f| findings.matching(f).is_none())
                            .cloned();
                        match f {
                            Some(failure) => violations.lock().unwrap().push(Violation {
                                failure,
                                family: fam.name.to_string(),
                                shard,
                                subs: minimal,
                            }),
                            None => lines.lock().unwrap().push(format!(
                                "note: shard {shard} family {} reported a failure that did not reproduce on re-run (flaky, ignored)",
                                fam.name
                            )),
                        }
                        break 'fam;
                    }
                }
                let mut st = stats.into_inner();
                st.jobs = ctx.borrow().jobs;
                total.lock().unwrap().merge(st);
            });
        }
    });

    for l in lines.into_inner().unwrap() {
        println!("{l}");
    }
    if collect_mode {
        for (sig, (n, msg)) in collected.into_inner().unwrap() {
            println!("COLLECTED x{n} {sig}\n    {}", msg.replace('\n', "\n    "));
        }
    }
    if let Some(e) = harness_err.into_inner().unwrap() {
        eprintln!("harness error: {e}");
        println!("HARNESS-ERROR property={} {e}", prop.id());
        return 2;
    }
    let stats = total.into_inner().unwrap();
    let violations = violations.into_inner().unwrap();
    // de-duplicate violations by kind+keys
    let mut seen = HashSet::new();
    let mut reported = 0;
    for v in &violations {
        let sig = format!("{}{:?}", v.failure.kind, v.failure.keys);
        if !seen.insert(sig) {
            continue;
        }
        let path = write_replay(prop.id(), seed, v);
        println!("VIOLATION property={} replay={}", prop.id(), path);
        println!("  {}: {}", v.failure.kind, v.failure.message.replace('\n', "\n  "));
        reported += 1;
    }
    write_evidence(prop, tier, seed, &stats, reported, t0.elapsed().as_secs_f64());
    println!(
        "{} {:?}: cases={} evaluations={} distinct_nontrivial={} jobs={} known_seen={:?} inconclusive={} violations={} wall={:.1}s",
        prop.id(),
        tier,
        stats.cases,
        stats.evaluations,
        stats.nontrivial.len(),
        stats.jobs,
        stats.known_seen,
        stats.inconclusive,
        reported,
        t0.elapsed().as_secs_f64()
    );
    if reported > 0 {
        1
    } else {
        0
    }
}

fn write_evidence(prop: &dyn Property, tier: Tier, seed: u64, st: &Stats, violations: usize, wall: f64) {
    let mut samples = st.nontrivial_samples.clone();
    samples.extend(st.samples.iter().cloned());
    if samples.is_empty() {
        samples.push(json!("no sample recorded"));
    }
    let ev = json!({
        "property_id": prop.id(),
        "tier": if tier == Tier::Quick { "quick" } else { "thorough" },
        "seed": seed,
        "level": prop.level(),
        "coverage": {
            "evaluations": st.evaluations,
            "cases": st.cases,
            "distinct_nontrivial": st.nontrivial.len(),
            "rule": prop.rule(),
            "samples": samples,
            "classes": st.classes,
            "per_family": st.per_family,
            "interpreter_jobs": st.jobs,
            "excluded_by_known_findings": st.excluded,
            "underspecified": st.underspecified,
            "inconclusive_timeouts": st.inconclusive,
            "known_findings_seen": st.known_seen,
            "exhaustive": false,
            "exhaustive_part": prop.exhaustive_part(),
        },
        "assumptions": prop.assumptions(),
        "wall_s": wall,
        "violations": violations,
    });
    // XV_EVIDENCE_DIR (development only): keep runs against deliberately broken trees away from
    // the evidence of record
    let dir = std::env::var("XV_EVIDENCE_DIR").unwrap_or_else(|_| format!("{VERIF}/evidence"));
    let _ = std::fs::create_dir_all(&dir);
    let _ = std::fs::write(
        format!("{dir}/{}.json", prop.id()),
        serde_json::to_string_pretty(&ev).unwrap(),
    );
}

pub fn run_replay(prop: &dyn Property, path: &str) -> i32 {
    let Ok(text) = std::fs::read_to_string(path) else {
        eprintln!("cannot read {path}");
        return 2;
    };
    let Ok(v) = serde_json::from_str::<Value>(&text) else {
        eprintln!("bad replay file");
        return 2;
    };
    let findings = Findings { all: vec![] }; // strict: nothing is exempted
    let worker = match Worker::spawn() {
        Ok(w) => w,
        Err(e) => {
            eprintln!("{}", e.0);
            return 2;
        }
    };
    let mut ctx = Ctx {
        worker,
        findings: &findings,
        tier: Tier::Quick,
        seed: v["seed"].as_u64().unwrap_or(0),
        jobs: 0,
    };
    let mut fails: Vec<Failure> = Vec::new();
    let subs: Vec<Vec<u8>> = v["subs"]
        .as_array()
        .map(|a| a.iter().filter_map(|s| s.as_str().map(unhex)).collect())
        .unwrap_or_default();
    if !subs.is_empty() {
        match prop.run_batch(v["family"].as_str().unwrap_or(""), &subs, &mut ctx) {
            Ok(outs) => fails.extend(outs.into_iter().flat_map(|o| o.failures)),
            Err(e) => {
                eprintln!("{}", e.0);
                return 2;
            }
        }
    }
    let direct = if v.get("direct").is_some() {
        v["direct"].clone()
    } else {
        v["failure"]["direct"].clone()
    };
    if fails.is_empty() && !direct.is_null() {
        match prop.check_direct(&direct, &mut ctx) {
            Ok(Some(f)) => fails.push(f),
            Ok(None) => {}
            Err(e) => {
                eprintln!("{}", e.0);
                return 2;
            }
        }
    }
    if let Some(f) = fails.first() {
        println!("VIOLATION property={} replay={}", prop.id(), path);
        println!("  {}: {}", f.kind, f.message);
        1
    } else {
        println!("replay passes: property {} holds on this input", prop.id());
        0
    }
}
