//! C11 — side effects happen only with permission.
use crate::direct::end_failure;
use crate::expect::brief;
use crate::pool::{par_exec, HarnessError};
use crate::proto::*;
use crate::runner::*;
use crate::tape::{fnv, Tape};
use serde_json::{json, Value};
use std::collections::BTreeMap;

pub struct C11;

const PERMS: &[(&str, bool)] = &[
    ("print", true),
    ("print_debug", true),
    ("now", true),
    ("random", true),
    ("regex", false),
    ("sleep", false),
];

#[derive(Clone, Copy, PartialEq, Debug)]
enum Double {
    Writer,
    Clock,
    Rng,
    None,
}

struct Effect {
    name: &'static str,
    perm: &'static str,
    /// an expression of type int that reaches the effect
    expr: &'static str,
    double: Double,
}

const EFFECTS: &[Effect] = &[
    Effect { name: "display", perm: "print", expr: "display(5)", double: Double::Writer },
    Effect { name: "display_prefix", perm: "print", expr: "display(5, \"v=\")", double: Double::Writer },
    Effect { name: "debug", perm: "print_debug", expr: "debug(5)", double: Double::Writer },
    Effect { name: "debug_prefix", perm: "print_debug", expr: "debug(5, \"d\")", double: Double::Writer },
    Effect { name: "now", perm: "now", expr: "now()::hours", double: Double::Clock },
    Effect { name: "random", perm: "random", expr: "floor(random() * 10.0)", double: Double::Rng },
    Effect { name: "random_discrete", perm: "random", expr: "random(uniform_distribution(0, 5))", double: Double::Rng },
    Effect { name: "random_continuous", perm: "random", expr: "floor(random(standard_uniform_distribution()))", double: Double::Rng },
    Effect { name: "sample_discrete", perm: "random", expr: "sample(uniform_distribution(0, 5), 2)[0]", double: Double::Rng },
    Effect { name: "sample_continuous", perm: "random", expr: "floor(sample(normal_distribution(0.0, 1.0), 2)[0])", double: Double::Rng },
    Effect { name: "sequence_sample", perm: "random", expr: "[1, 2, 3].sample(1)[0]", double: Double::Rng },
    Effect { name: "sequence_sample_counts", perm: "random", expr: "[1, 2, 3].sample(1, [1, 2, 1])[0]", double: Double::Rng },
    Effect { name: "sequence_sample_sparse", perm: "random", expr: "range(100).sample(1)[0]", double: Double::Rng },
    Effect { name: "sequence_sample_lazy_source", perm: "random", expr: "range(1000).map((x: int) -> { x + 1 }).sample(2)[0]", double: Double::Rng },
    Effect { name: "shuffle_large", perm: "random", expr: "range(60).shuffle()[0]", double: Double::Rng },
    Effect { name: "random_choices_large", perm: "random", expr: "range(100).random_choices(2)[0]", double: Double::Rng },
    Effect { name: "shuffle", perm: "random", expr: "[1, 2, 3].shuffle()[0]", double: Double::Rng },
    Effect { name: "random_choices", perm: "random", expr: "[1, 2, 3].random_choices(2)[0]", double: Double::Rng },
    Effect { name: "random_choices_weighted", perm: "random", expr: "[1, 2, 3].random_choices(2, [1.0, 2.0, 1.0])[0]", double: Double::Rng },
    Effect { name: "regex", perm: "regex", expr: "if(regex(\"a+\").match(\"aaa\").has_value(), 1, 0)", double: Double::None },
    Effect { name: "sleep", perm: "sleep", expr: "sleep(seconds(0.0), 5)", double: Double::None },
    Effect { name: "sleep_unit", perm: "sleep", expr: "and(sleep(seconds(0.0)), 5)", double: Double::None },
];

struct Path {
    name: &'static str,
    /// `{E}` is the effect expression; the body has type int
    body: &'static str,
    /// reached while instantiating (top-level value, default of a top-level function)
    decl: Option<&'static str>,
}

const PATHS: &[Path] = &[
    Path { name: "direct", body: "{E}", decl: None },
    Path { name: "user_wrapper", body: "((u: int) -> { {E} + u })(0)", decl: None },
    Path { name: "closure", body: "((k: int) -> { () -> { {E} + k } })(0)()", decl: None },
    Path { name: "lazy_map", body: "[1].map((x: int) -> { {E} + x })[0]", decl: None },
    Path { name: "map_to_array", body: "len([1, 2].map((x: int) -> { {E} + x }).to_array())", decl: None },
    Path { name: "generator_filter", body: "[1, 2].to_generator().filter((x: int) -> { {E} >= 0 || true }).len()", decl: None },
    Path { name: "reduce", body: "[1].reduce(0, (a: int, x: int) -> { a + {E} })", decl: None },
    Path { name: "sort_comparator", body: "[2, 1].sort((a: int, b: int) -> { {E} * 0 + cmp(a, b) })[0]", decl: None },
    Path { name: "struct_field", body: "Holder(() -> { {E} })::f()", decl: None },
    Path { name: "under_if_error", body: "if_error({E}, -1)", decl: None },
    Path { name: "under_is_error", body: "if(is_error({E}), -1, 1)", decl: None },
    Path { name: "inner_default", body: "((x: int ?= {E}) -> { x })()", decl: None },
    Path { name: "short_circuit_branch", body: "if(true, {E}, 0)", decl: None },
    Path { name: "top_level_value", body: "tl", decl: Some("let tl = {E};") },
    Path { name: "top_level_default", body: "gd()", decl: Some("fn gd(x: int ?= {E}) -> int { x }") },
];

const PRELUDE: &str = "struct Holder(f: ()->(int))\n";

fn allowed(perms: &BTreeMap<String, bool>, id: &str) -> bool {
    perms
        .get(id)
        .copied()
        .unwrap_or_else(|| PERMS.iter().find(|p| p.0 == id).map_or(true, |p| p.1))
}

fn touches(r: &Reply, idx: usize, d: Double) -> Option<u64> {
    let Out::Counters { writer_calls, clock_reads, rng_created, rng_draws, .. } = r.step(idx) else { return None };
    Some(match d {
        Double::Writer => *writer_calls,
        Double::Clock => *clock_reads,
        Double::Rng => rng_created + rng_draws,
        Double::None => 0,
    })
}

/// judge one (effect, path) run: `before`/`after` are Counters steps around `at`
fn judge(
    e: &Effect,
    p: &Path,
    perms: &BTreeMap<String, bool>,
    r: &Reply,
    before: usize,
    at: usize,
    after: usize,
    job: &Job,
) -> Vec<Failure> {
    let mut fails = vec![];
    let on = allowed(perms, e.perm);
    let out = r.step(at);
    let (Some(t0), Some(t1)) = (touches(r, before, e.double), touches(r, after, e.double)) else { return fails };
    let delta = t1 - t0;
    let pe = format!("PermissionError(\"{}\")", e.perm);
    let mk = |kind: &str, msg: String| {
        Failure::new(kind, format!("{msg}\n  effect {} through {} with permissions {:?}\n  body: {}", e.name, p.name, perms, p.body.replace("{E}", e.expr)))
            .key("effect", e.name)
            .key("path", p.name)
            .key("perm", e.perm)
            .direct(json!({"form": "c11", "job": job, "before": before, "at": at, "after": after, "perm": e.perm, "on": on, "double": format!("{:?}", e.double)}))
    };
    if out.is_panic() {
        fails.push(mk("panic", format!("panic: {}", brief(out))));
        return fails;
    }
    if on {
        if matches!(out, Out::Violation { v } if v.starts_with("PermissionError")) {
            fails.push(mk("refused_although_allowed", format!("the permission is enabled but the run ended in {}", brief(out))));
        } else if e.double != Double::None && delta == 0 && matches!(out, Out::Value { .. } | Out::Done) {
            fails.push(mk("effect_not_observed", format!("the run succeeded ({}) but the injected {:?} double was not touched", brief(out), e.double)));
        }
    } else {
        if !matches!(out, Out::Violation { v } if *v == pe) {
            fails.push(mk("effect_without_permission", format!("the permission is disabled; expected {pe}, observed {}", brief(out))));
        }
        if delta != 0 {
            fails.push(mk("double_touched_without_permission", format!("the permission is disabled but the injected {:?} double was touched {delta} times", e.double)));
        }
    }
    fails
}

fn program_runtime_paths() -> (String, Vec<(usize, usize, String)>) {
    // one exported function per (effect, run-time path)
    let mut src = PRELUDE.to_string();
    let mut fns = vec![];
    for (ei, e) in EFFECTS.iter().enumerate() {
        for (pi, p) in PATHS.iter().enumerate() {
            if p.decl.is_some() {
                continue;
            }
            let name = format!("p_{ei}_{pi}");
            src.push_str(&format!("fn {name}() -> int {{ {} }}\n", p.body.replace("{E}", e.expr)));
            fns.push((ei, pi, name));
        }
    }
    (src, fns)
}

fn perms_of_mask(mask: usize, explicit: usize) -> BTreeMap<String, bool> {
    // bit i of mask: permission i on/off; a value equal to the default is left unset unless
    // bit i of `explicit` asks for an explicit entry
    let mut m = BTreeMap::new();
    for (i, (id, default)) in PERMS.iter().enumerate() {
        let on = mask >> i & 1 == 1;
        if on != *default || explicit >> i & 1 == 1 {
            m.insert(id.to_string(), on);
        }
    }
    m
}

impl Property for C11 {
    fn id(&self) -> &'static str {
        "C11"
    }
    fn rule(&self) -> String {
        "enumerated: ALL 64 on/off assignments of the six permissions (a value equal to the documented default alternately left unset or set explicitly) x 22 effect expressions (display, debug, now, random, distribution random/sample, sequence sample/shuffle/random_choices incl. weighted, regex, sleep incl. the library wrappers written in the language) x 15 paths (direct, user wrapper, closure, lazy map, forced map, generator filter, reduce, sort comparator, function stored in a struct field, under if_error / is_error, default of an inner lambda, selected branch, top-level value, default parameter of a top-level function), with recording doubles for writer, clock and random source. random: programs nesting 1-3 paths around an effect under random 3-state assignments. Oracle: permission off => PermissionError(id) and zero touches of the corresponding double (RNG creation included); on => no permission violation for that id and the double touched. Non-trivial = the effect is reached through at least one level of indirection or the permission is in its default (unset) state.".into()
    }
    fn exhaustive_part(&self) -> Option<String> {
        Some("64 permission assignments x 22 effects x 15 paths enumerated completely".into())
    }
    fn families(&self, tier: Tier) -> Vec<Family> {
        let k = if tier == Tier::Quick { 1 } else { 20 };
        vec![Family { name: "random", batches: 900 * k, batch_size: 1, tape_len: 24 }]
    }
    fn enumerate(&self, _ctx: &mut Ctx, _tier: Tier) -> Result<Vec<CaseOutcome>, HarnessError> {
        let (src, fns) = program_runtime_paths();
        let mut jobs = vec![];
        let mut meta: Vec<(BTreeMap<String, bool>, Option<(usize, usize)>)> = vec![];
        for mask in 0..64usize {
            let perms = perms_of_mask(mask, mask.wrapping_mul(37) % 64);
            // all run-time paths on one runtime, counters read between the runs
            let mut job = Job::new(src.clone());
            job.steps = vec![Step::Compile { src: 0 }, Step::Instantiate, Step::Counters];
            for (_, _, name) in &fns {
                job.steps.push(Step::RunQuiet { name: name.clone() });
                job.steps.push(Step::Counters);
            }
            job.limits.perms = perms.clone();
            job.cpu_s = 60;
            jobs.push(job);
            meta.push((perms.clone(), None));
            // instantiate-time paths: one program each
            for (ei, e) in EFFECTS.iter().enumerate() {
                for (pi, p) in PATHS.iter().enumerate() {
                    let Some(decl) = p.decl else { continue };
                    let s = format!("{PRELUDE}{}\nfn c0() -> int {{ {} }}\n", decl.replace("{E}", e.expr), p.body);
                    let mut job = Job::new(s);
                    job.steps = vec![
                        Step::Compile { src: 0 },
                        Step::Counters,
                        Step::Instantiate,
                        Step::Counters,
                        Step::RunQuiet { name: "c0".into() },
                        Step::Counters,
                    ];
                    job.limits.perms = perms.clone();
                    jobs.push(job);
                    meta.push((perms.clone(), Some((ei, pi))));
                }
            }
        }
        let replies = par_exec(&jobs, 12)?;
        let mut outs = vec![];
        for ((job, r), (perms, inst)) in jobs.iter().zip(&replies).zip(&meta) {
            if let Some(f) = end_failure(r) {
                outs.push(CaseOutcome {
                    key: fnv(format!("{:?}{:?}", perms, inst).as_bytes()),
                    failures: vec![f.direct(json!({"form": "no_crash", "job": job}))],
                    evals: 1,
                    ..Default::default()
                });
                continue;
            }
            let mut one = |ei: usize, pi: usize, before: usize, at: usize, after: usize| {
                let (e, p) = (&EFFECTS[ei], &PATHS[pi]);
                let failures = judge(e, p, perms, r, before, at, after, job);
                let unset = !perms.contains_key(e.perm);
                outs.push(CaseOutcome {
                    key: fnv(format!("{:?}|{}|{}", perms, e.name, p.name).as_bytes()),
                    nontrivial: p.name != "direct" || unset,
                    classes: vec![
                        format!("effect:{}", e.name),
                        format!("path:{}", p.name),
                        if allowed(perms, e.perm) { "perm:on".into() } else { "perm:off".into() },
                        if unset { "perm:default".into() } else { "perm:explicit".into() },
                    ],
                    sample: Some(json!({"permissions": perms, "effect": e.name, "path": p.name, "observed": brief(r.step(at))})),
                    failures,
                    evals: 1,
                    ..Default::default()
                });
            };
            match inst {
                None => {
                    for (k, (ei, pi, _)) in fns.iter().enumerate() {
                        one(*ei, *pi, 2 + 2 * k, 3 + 2 * k, 4 + 2 * k);
                    }
                }
                Some((ei, pi)) => one(*ei, *pi, 1, 2, 3),
            }
        }
        Ok(outs)
    }
    fn run_batch(&self, _family: &str, subs: &[Vec<u8>], ctx: &mut Ctx) -> Result<Vec<CaseOutcome>, HarnessError> {
        let mut outs = vec![];
        for s in subs {
            let mut t = Tape::new(s);
            let e = t.pick(EFFECTS);
            // 1-3 nested run-time paths
            let runtime_paths: Vec<&Path> = PATHS.iter().filter(|p| p.decl.is_none()).collect();
            let depth = 1 + t.below(3);
            let mut body = e.expr.to_string();
            let mut names = vec![];
            for _ in 0..depth {
                let p = *t.pick(&runtime_paths);
                body = p.body.replace("{E}", &body);
                names.push(p.name);
            }
            // three states per permission
            let mut perms = BTreeMap::new();
            for (id, _) in PERMS {
                match t.below(3) {
                    0 => {}
                    1 => {
                        perms.insert(id.to_string(), true);
                    }
                    _ => {
                        perms.insert(id.to_string(), false);
                    }
                }
            }
            let src = format!("{PRELUDE}fn c0() -> int {{ {body} }}\n");
            let mut job = Job::new(src.clone());
            job.steps = vec![
                Step::Compile { src: 0 },
                Step::Instantiate,
                Step::Counters,
                Step::RunQuiet { name: "c0".into() },
                Step::Counters,
            ];
            job.limits.perms = perms.clone();
            let r = ctx.exec(&job)?;
            let mut o = CaseOutcome {
                key: fnv(format!("{src}{perms:?}").as_bytes()),
                nontrivial: true,
                classes: vec![format!("effect:{}", e.name), format!("nesting:{depth}")],
                evals: 1,
                ..Default::default()
            };
            if let Some(f) = end_failure(&r) {
                o.failures.push(f.direct(json!({"form": "no_crash", "job": job})));
            } else if matches!(r.step(0), Out::Done) {
                let p = Path { name: "nested", body: "", decl: None };
                let mut fl = judge(e, &p, &perms, &r, 2, 3, 4, &job);
                for f in fl.iter_mut() {
                    f.message = format!("{}\n  nested paths: {:?}\n  body: {body}", f.message, names);
                }
                o.failures = fl;
            } else {
                o.inconclusive = true;
            }
            o.sample = Some(json!({"permissions": perms, "effect": e.name, "paths": names, "observed": brief(r.step(3))}));
            outs.push(o);
        }
        Ok(outs)
    }
    fn check_direct(&self, direct: &Value, ctx: &mut Ctx) -> Result<Option<Failure>, HarnessError> {
        if direct["form"].as_str() != Some("c11") {
            return crate::direct::check_generic(direct, ctx);
        }
        let job: Job = serde_json::from_value(direct["job"].clone()).map_err(|e| HarnessError(e.to_string()))?;
        let r = ctx.exec(&job)?;
        if let Some(f) = end_failure(&r) {
            return Ok(Some(f.direct(direct.clone())));
        }
        let (before, at, after) = (
            direct["before"].as_u64().unwrap_or(0) as usize,
            direct["at"].as_u64().unwrap_or(0) as usize,
            direct["after"].as_u64().unwrap_or(0) as usize,
        );
        let d = match direct["double"].as_str().unwrap_or("") {
            "Writer" => Double::Writer,
            "Clock" => Double::Clock,
            "Rng" => Double::Rng,
            _ => Double::None,
        };
        let on = direct["on"].as_bool().unwrap_or(true);
        let perm = direct["perm"].as_str().unwrap_or("");
        let delta = touches(&r, after, d).unwrap_or(0) - touches(&r, before, d).unwrap_or(0);
        let out = r.step(at);
        let pe = format!("PermissionError(\"{perm}\")");
        let bad = if on {
            matches!(out, Out::Violation { v } if v.starts_with("PermissionError")) || out.is_panic()
        } else {
            !matches!(out, Out::Violation { v } if *v == pe) || delta != 0
        };
        Ok(bad.then(|| Failure::new("c11", format!("still fails: {}", brief(out))).direct(direct.clone())))
    }
}
