//! C20 — documented conversions are mutually inverse and canonical.
use super::c14::gen_int;
use super::common::*;
use crate::dump::*;
use crate::expect::Expect;
use crate::pool::HarnessError;
use crate::proto::*;
use crate::runner::*;
use crate::tape::{fnv, Tape};
use num_bigint::BigInt;
use num_integer::Integer;
use num_traits::{One, Signed, Zero};
use serde_json::{json, Value};

pub struct C20;

// ------------------------------------------------------------------ JSON

fn gen_json_string(t: &mut Tape) -> String {
    let alphabet: &[char] = &[
        'a', 'b', ' ', '"', '\\', '/', '\n', '\r', '\t', '\u{8}', '\u{c}', '\u{1}', '\u{1f}', '\u{7f}', 'é', '中',
        '😀', '\u{2028}', '{', '}', '[', ',', ':', '0',
    ];
    (0..t.below(8)).map(|_| *t.pick(alphabet)).collect()
}

fn gen_json_number(t: &mut Tape) -> f64 {
    match t.below(6) {
        0 => t.range(-5, 100) as f64,
        1 => *t.pick(&[0.5, -0.25, 3.14159, 1e-7, 1.5e300, -2.5e-300, 1e21, 1e22, 123456.789]),
        2 => *t.pick(&[9007199254740993.0, 1.8446744073709552e19, -9.223372036854776e18, 1e15, 1e16, 1e17]),
        3 => {
            let f = f64::from_bits(t.u64());
            if f.is_finite() {
                f
            } else {
                1.0
            }
        }
        4 => (t.range(-1000000, 1000000) as f64) / 1000.0,
        _ => 0.0,
    }
}

fn gen_doc(t: &mut Tape, depth: u32) -> Value {
    let n = if depth == 0 { 4 } else { 6 };
    match t.below(n) {
        0 => Value::Null,
        1 => Value::Bool(t.bool()),
        2 => json!(gen_json_number(t)),
        3 => Value::String(gen_json_string(t)),
        4 => Value::Array((0..t.below(4)).map(|_| gen_doc(t, depth - 1)).collect()),
        _ => {
            let mut m = serde_json::Map::new();
            for _ in 0..t.below(4) {
                m.insert(gen_json_string(t), gen_doc(t, depth - 1));
            }
            Value::Object(m)
        }
    }
}

fn doc_src(d: &Value) -> String {
    match d {
        Value::Null => "JSON::null(())".into(),
        Value::Bool(b) => format!("json({b})"),
        Value::Number(n) => format!("JSON::number({})", float_src(n.as_f64().unwrap_or(0.0))),
        Value::String(s) => format!("json({})", str_src(s)),
        Value::Array(a) => {
            if a.is_empty() {
                "JSON::array(take([json(true)], 0))".into()
            } else {
                format!("JSON::array([{}])", a.iter().map(doc_src).collect::<Vec<_>>().join(", "))
            }
        }
        Value::Object(m) => {
            if m.is_empty() {
                "JSON::object(mapping<str>().set(\"k\", json(true)).discard(\"k\"))".into()
            } else {
                format!(
                    "JSON::object(mapping<str>().update([{}]))",
                    m.iter()
                        .map(|(k, v)| format!("({}, {})", str_src(k), doc_src(v)))
                        .collect::<Vec<_>>()
                        .join(", ")
                )
            }
        }
    }
}

fn doc_depth(d: &Value) -> u32 {
    match d {
        Value::Array(a) => 1 + a.iter().map(doc_depth).max().unwrap_or(0),
        Value::Object(m) => 1 + m.values().map(doc_depth).max().unwrap_or(0),
        _ => 0,
    }
}

fn gen_json_case(t: &mut Tape) -> ValCase {
    let doc = gen_doc(t, 4);
    let text = serde_json::to_string(&doc).unwrap_or_else(|_| "null".into());
    let body = format!(
        "let j = {};\n  let s = serialize(j);\n  (s, json_deserialize(s) == j, serialize(json_deserialize({})))",
        doc_src(&doc),
        str_src(&text)
    );
    let mut c = ValCase::new("(str, bool, str)", body, Expect::JsonRoundTrip { doc: doc.clone() });
    let needs_escape = text.contains('\\');
    c.nontrivial = needs_escape || doc_depth(&doc) >= 2 || text.contains('e');
    c.describe = format!("JSON document {}", text.chars().take(80).collect::<String>());
    c.key("kind", "json").class("json").class(format!("json_depth:{}", doc_depth(&doc)))
}

// ------------------------------------------------------------------ calendar

/// days since 1970-01-01 of a proleptic Gregorian date (Hinnant's algorithm, floor division)
fn days_from_civil(y: i64, m: i64, d: i64) -> i64 {
    let y = if m <= 2 { y - 1 } else { y };
    let era = y.div_euclid(400);
    let yoe = y - era * 400;
    let doy = (153 * (if m > 2 { m - 3 } else { m + 9 }) + 2) / 5 + d - 1;
    let doe = yoe * 365 + yoe / 4 - yoe / 100 + doy;
    era * 146097 + doe - 719468
}

fn civil_from_days(z: i64) -> (i64, i64, i64) {
    let z = z + 719468;
    let era = z.div_euclid(146097);
    let doe = z - era * 146097;
    let yoe = (doe - doe / 1460 + doe / 36524 - doe / 146096) / 365;
    let y = yoe + era * 400;
    let doy = doe - (365 * yoe + yoe / 4 - yoe / 100);
    let mp = (5 * doy + 2) / 153;
    let d = doy - (153 * mp + 2) / 5 + 1;
    let m = if mp < 10 { mp + 3 } else { mp - 9 };
    (if m <= 2 { y + 1 } else { y }, m, d)
}

const JD_UNIX_EPOCH: i64 = 2440588;

fn lit(v: i64) -> String {
    if v < 0 {
        format!("({v})")
    } else {
        v.to_string()
    }
}

fn days_in_month(y: i64, m: i64) -> i64 {
    match m {
        2 => {
            if (y % 4 == 0 && y % 100 != 0) || y % 400 == 0 {
                29
            } else {
                28
            }
        }
        4 | 6 | 9 | 11 => 30,
        _ => 31,
    }
}

fn gen_date_case(t: &mut Tape) -> ValCase {
    if t.bool() {
        // Julian day -> date -> Julian day
        let jd = match t.below(4) {
            0 => t.range(0, 3_000_000),
            1 => t.range(2_300_000, 2_600_000),
            2 => *t.pick(&[0i64, 1, 1721060, 1721119, 1721120, 2299160, 2299161, 2440587, 2440588, 2451545, 2451604, 2451605]),
            _ => t.range(-3_000_000, 3_000_000),
        };
        let (y, m, d) = civil_from_days(jd - JD_UNIX_EPOCH);
        let body = format!(
            "let d = date({0});\n  let e = date({0} + 1);\n  (d::year, d::month, d::day, julian_day(d), weekday(d), weekday(e))",
            lit(jd)
        );
        let wd = jd.rem_euclid(7);
        let mut c = ValCase::new(
            "(int, int, int, int, int, int)",
            body,
            Expect::Dump {
                dump: d_tuple(vec![d_i64(y), d_i64(m), d_i64(d), d_i64(jd), d_i64(wd), d_i64((wd + 1) % 7)]),
            },
        );
        c.nontrivial = jd < 0 || (m == 2 && d >= 28) || (m == 12 && d == 31) || (m == 1 && d == 1) || (m == 3 && d == 1);
        c.describe = format!("Julian day {jd} = {y}-{m}-{d}");
        return c
            .key("kind", "date")
            .key("sign", if jd < 0 { "negative_jd" } else if y <= 0 { "year_le_0" } else { "ce" })
            .class("date:from_jd");
    }
    let y = match t.below(3) {
        0 => t.range(1, 3000),
        1 => *t.pick(&[-4712i64, -1, 0, 1, 4, 100, 400, 1582, 1600, 1900, 1970, 2000, 2024, 2100, 8000]),
        _ => t.range(-8000, 8000),
    };
    let m = t.range(1, 12);
    let dim = days_in_month(y, m);
    let d = match t.below(3) {
        0 => t.range(1, dim),
        1 => dim,
        _ => 1,
    };
    let jd = days_from_civil(y, m, d) + JD_UNIX_EPOCH;
    let body = format!(
        "let d = Date({}, {m}, {d});\n  let j = julian_day(d);\n  let back = date(j);\n  (j, back::year, back::month, back::day, weekday(d))",
        lit(y)
    );
    let mut c = ValCase::new(
        "(int, int, int, int, int)",
        body,
        Expect::Dump {
            dump: d_tuple(vec![d_i64(jd), d_i64(y), d_i64(m), d_i64(d), d_i64(jd.rem_euclid(7))]),
        },
    );
    c.nontrivial = y <= 0 || d == dim || (m == 2);
    c.describe = format!("{y}-{m}-{d} = Julian day {jd}");
    c.key("kind", "date")
        .key("sign", if jd < 0 { "negative_jd" } else if y <= 0 { "year_le_0" } else { "ce" })
        .class("date:to_jd")
}

fn gen_datetime_case(t: &mut Tape) -> ValCase {
    // dyadic fractions and moderate magnitudes: every float operation involved is exact
    let whole = match t.below(4) {
        0 => t.range(-100_000_000_000, 100_000_000_000),
        1 => t.range(-200_000, 200_000),
        2 => *t.pick(&[0i64, -1, 1, 59, 60, -60, 3599, 3600, -3600, 86399, 86400, -86400, -86401, 951782400, 1709251199]),
        _ => t.range(0, 4_000_000_000),
    };
    let frac = *t.pick(&[0.0, 0.5, 0.25, 0.75, 0.125, 0.0009765625]);
    let ts = whole as f64 + frac;
    let secs = ts.rem_euclid(60.0);
    let total_min = (ts / 60.0).floor() as i64;
    let minutes = total_min.rem_euclid(60);
    let total_h = total_min.div_euclid(60);
    let hours = total_h.rem_euclid(24);
    let days = total_h.div_euclid(24);
    let (y, m, d) = civil_from_days(days);
    let body = format!(
        "let dt = datetime({});\n  (dt::date::year, dt::date::month, dt::date::day, dt::hours, dt::minutes, dt::seconds, unix(dt))",
        float_src(ts)
    );
    let mut c = ValCase::new(
        "(int, int, int, int, int, float, float)",
        body,
        Expect::Dump {
            dump: d_tuple(vec![
                d_i64(y),
                d_i64(m),
                d_i64(d),
                d_i64(hours),
                d_i64(minutes),
                d_float(secs),
                d_float(ts),
            ]),
        },
    );
    c.nontrivial = ts < 0.0 || frac != 0.0;
    c.describe = format!("unix time {ts}");
    c.key("kind", "datetime")
        .key("sign", if ts < 0.0 { "negative" } else { "nonnegative" })
        .class("datetime")
}

// ------------------------------------------------------------------ fractions

fn norm(n: BigInt, d: BigInt) -> (BigInt, BigInt) {
    let g = n.gcd(&d);
    let (mut n, mut d) = (n / &g, d / &g);
    if d.is_negative() {
        n = -n;
        d = -d;
    }
    (n, d)
}

fn gen_frac_operand(t: &mut Tape) -> (BigInt, BigInt) {
    let mut n = gen_int(t);
    let mut d = gen_int(t);
    if n.bits() > 70 {
        n >>= (n.bits() - 70) as usize;
    }
    if d.bits() > 70 {
        d >>= (d.bits() - 70) as usize;
    }
    if d.is_zero() && t.below(8) != 0 {
        d = BigInt::from(t.range(1, 9));
    }
    (n, d)
}

fn d_frac(n: &BigInt, d: &BigInt) -> Value {
    d_tuple(vec![d_int(n), d_int(d)])
}

fn gen_fraction_case(t: &mut Tape) -> ValCase {
    let (an, ad) = gen_frac_operand(t);
    let (bn, bd) = gen_frac_operand(t);
    let err = Expect::Error { msg: None };
    let fa = format!("fraction({}, {})", int_src(&an, t), int_src(&ad, t));
    let fb = format!("fraction({}, {})", int_src(&bn, t), int_src(&bd, t));
    let op = *t.pick(&[
        "make", "add", "sub", "mul", "div", "mod", "neg", "abs", "floor", "ceil", "trunc", "cmp", "eq", "pow", "sign",
    ]);
    if ad.is_zero() || (bd.is_zero() && !matches!(op, "make" | "neg" | "abs" | "floor" | "ceil" | "trunc" | "sign" | "pow")) {
        let mut c = ValCase::new("Fraction", if ad.is_zero() { fa.clone() } else { fb.clone() }, err);
        c.describe = "fraction with a zero denominator".into();
        return c.key("kind", "fraction").key("op", "zero_denominator").class("fraction:zero_denominator");
    }
    let (xn, xd) = norm(an.clone(), ad.clone());
    let (yn, yd) = if bd.is_zero() { (BigInt::zero(), BigInt::one()) } else { norm(bn.clone(), bd.clone()) };
    let frac = |n: BigInt, d: BigInt| {
        let (n, d) = norm(n, d);
        Expect::Dump { dump: d_frac(&n, &d) }
    };
    let int = |v: BigInt| Expect::Dump { dump: d_int(&v) };
    let (ret, body, expect): (&str, String, Expect) = match op {
        "make" => ("Fraction", fa.clone(), frac(xn.clone(), xd.clone())),
        "add" => ("Fraction", format!("{fa} + {fb}"), frac(&xn * &yd + &yn * &xd, &xd * &yd)),
        "sub" => ("Fraction", format!("{fa} - {fb}"), frac(&xn * &yd - &yn * &xd, &xd * &yd)),
        "mul" => ("Fraction", format!("{fa} * {fb}"), frac(&xn * &yn, &xd * &yd)),
        "div" => (
            "Fraction",
            format!("{fa} / {fb}"),
            if yn.is_zero() { err.clone() } else { frac(&xn * &yd, &xd * &yn) },
        ),
        "mod" => (
            "Fraction",
            format!("{fa} % {fb}"),
            if yn.is_zero() {
                err.clone()
            } else {
                // x - y * floor(x / y)
                let q = (&xn * &yd).div_floor(&(&xd * &yn));
                frac(&xn * &yd - &q * &yn * &xd, &xd * &yd)
            },
        ),
        "neg" => ("Fraction", format!("-({fa})"), frac(-&xn, xd.clone())),
        "abs" => ("Fraction", format!("abs({fa})"), frac(xn.abs(), xd.clone())),
        "floor" => ("int", format!("floor({fa})"), int(xn.div_floor(&xd))),
        "ceil" => ("int", format!("ceil({fa})"), int(-((-&xn).div_floor(&xd)))),
        "trunc" => ("int", format!("trunc({fa})"), int(&xn / &xd)),
        "cmp" => (
            "int",
            format!("sign(cmp({fa}, {fb}))"),
            int(BigInt::from(match (&xn * &yd).cmp(&(&yn * &xd)) {
                std::cmp::Ordering::Less => -1,
                std::cmp::Ordering::Equal => 0,
                _ => 1,
            })),
        ),
        "eq" => {
            // the same rational written with another common factor
            let k = BigInt::from(t.range(1, 12)) * if t.bool() { -1 } else { 1 };
            let other = format!("fraction({}, {})", int_src(&(&an * &k), t), int_src(&(&ad * &k), t));
            (
                "(bool, bool)",
                format!("({fa} == {other}, hash({fa}) == hash({other}))"),
                Expect::Dump { dump: d_tuple(vec![d_bool(true), d_bool(true)]) },
            )
        }
        "pow" => {
            let e = t.range(-3, 4);
            let ex = if e == 0 && xn.is_zero() {
                // 0 ** 0: an error for ints; not stated for fractions
                Expect::OneOf { alts: vec![err.clone(), frac(BigInt::one(), BigInt::one())] }
            } else if e >= 0 {
                frac(num_traits::pow::pow(xn.clone(), e as usize), num_traits::pow::pow(xd.clone(), e as usize))
            } else if xn.is_zero() {
                err.clone()
            } else {
                frac(
                    num_traits::pow::pow(xd.clone(), (-e) as usize),
                    num_traits::pow::pow(xn.clone(), (-e) as usize),
                )
            };
            ("Fraction", format!("({fa}) ** {}", lit(e)), ex)
        }
        _ => (
            "int",
            format!("sign({fa})"),
            int(BigInt::from(if xn.is_negative() { -1 } else if xn.is_zero() { 0 } else { 1 })),
        ),
    };
    let mut c = ValCase::new(ret, body, expect);
    let big = an.bits() > 53 || ad.bits() > 53 || bn.bits() > 53 || bd.bits() > 53;
    c.nontrivial = big || an.is_negative() != ad.is_negative();
    c.describe = format!("{op} on {an}/{ad} and {bn}/{bd}");
    c.key("kind", "fraction")
        .key("op", op)
        .key("big", if big { "big" } else { "small" })
        .class(format!("fraction:{op}"))
}

fn gen_radix_case(t: &mut Tape) -> ValCase {
    let v = gen_int(t);
    let (spec, radix) = *t.pick(&[("b", 2u32), ("o", 8), ("x", 16), ("", 10)]);
    let body = match t.below(3) {
        0 => format!("to_int(format({}, \"{spec}\"), {radix})", int_src(&v, t)),
        1 => format!("to_int(to_str({}))", int_src(&v, t)),
        _ => {
            // any base 2..36 through the text produced by the model
            let r = t.range(2, 36) as u32;
            format!("to_int(\"{}\", {r})", v.to_str_radix(r))
        }
    };
    let mut c = ValCase::new("int", body, Expect::Dump { dump: d_int(&v) });
    c.nontrivial = radix != 10 || v.bits() > 63;
    c.describe = format!("int -> text -> int for {v}");
    c.key("kind", "radix").class("radix")
}

impl Property for C20 {
    fn id(&self) -> &'static str {
        "C20"
    }
    fn rule(&self) -> String {
        "json: documents of nesting <= 5 (strings with quotes, backslashes, controls, U+2028, non-BMP; numbers across the double range incl. integers beyond 2^53 and exponents; arrays; objects with distinct keys) are built, serialised, parsed by serde_json in the harness and compared with the document; json_deserialize(serialize(j)) == j; text produced by serde_json is deserialised and re-serialised. dates: Julian days in +-3,000,000 and dates with years in -8000..8000 (month ends, leap days, era boundaries) against the textbook civil-from-days algorithm, weekdays consecutive. datetime: Unix times in +-10^11 with dyadic fractions against floor arithmetic; unix(datetime(t)) == t. fraction: operand pairs up to 2^70 incl. negative and zero against exact rationals (lowest terms, positive denominator). radix: int -> text -> int for bases 2, 8, 16, 10 (format) and 2..36 (to_int). chr/code_point: EVERY scalar value and every surrogate (exhaustive enumeration, in 4096-wide chunks). Non-trivial = escapes / depth >= 2 / exponent (json), negative or boundary dates and times, operands beyond 2^53 or with mixed signs, non-decimal base.".into()
    }
    fn assumptions(&self) -> Vec<String> {
        vec![
            "serde_json is the independent JSON parser/serialiser".into(),
            "datetime cases use dyadic fractions so that every float operation of the documented formulas is exact".into(),
        ]
    }
    fn exhaustive_part(&self) -> Option<String> {
        Some("code_point(chr(c)) == c for every scalar value 0..0x10FFFF and chr(c) is an error for every surrogate and for 0x110000..0x110100 (enumerated completely)".into())
    }
    fn families(&self, tier: Tier) -> Vec<Family> {
        let k = if tier == Tier::Quick { 1 } else { 25 };
        vec![
            Family { name: "json", batches: 200 * k, batch_size: 20, tape_len: 200 },
            Family { name: "dates", batches: 120 * k, batch_size: 40, tape_len: 40 },
            Family { name: "datetime", batches: 100 * k, batch_size: 40, tape_len: 40 },
            Family { name: "fraction", batches: 160 * k, batch_size: 40, tape_len: 260 },
            Family { name: "radix", batches: 60 * k, batch_size: 40, tape_len: 120 },
        ]
    }
    fn run_batch(&self, family: &str, subs: &[Vec<u8>], ctx: &mut Ctx) -> Result<Vec<CaseOutcome>, HarnessError> {
        let cases: Vec<ValCase> = subs
            .iter()
            .map(|s| {
                let mut t = Tape::new(s);
                match family {
                    "json" => gen_json_case(&mut t),
                    "dates" => gen_date_case(&mut t),
                    "datetime" => gen_datetime_case(&mut t),
                    "fraction" => gen_fraction_case(&mut t),
                    _ => gen_radix_case(&mut t),
                }
            })
            .collect();
        run_val_batch(cases, ctx, "value_mismatch")
    }
    fn enumerate(&self, ctx: &mut Ctx, _tier: Tier) -> Result<Vec<CaseOutcome>, HarnessError> {
        // every scalar value and every surrogate, 4096 code points per exported function
        let mut cases = vec![];
        let mut start = 0i64;
        while start < 0x110100 {
            let end = start + 4096;
            let body = format!(
                "range({start}, {end}).count((c: int) -> {{ if(({start} + 0 <= c) && (c < 55296 || (c > 57343 && c < 1114112)), if_error(code_point(chr(c)) == c && len(chr(c)) == 1, false), is_error(chr(c))) }})"
            );
            let mut c = ValCase::new("int", body, Expect::Dump { dump: d_i64(4096) });
            c.nontrivial = true;
            c.describe = format!("code points {start:#x}..{end:#x}");
            c = c.key("kind", "chr").class("chr_chunk");
            cases.push(c);
            start = end;
        }
        let mut outs = vec![];
        for chunk in cases.chunks(16) {
            outs.extend(run_val_batch(chunk.to_vec(), ctx, "value_mismatch")?);
        }
        // each chunk stands for 4096 evaluations
        for o in outs.iter_mut() {
            o.evals = 4096;
            o.key = fnv(format!("{:?}", o.sample).as_bytes());
        }
        Ok(outs)
    }
}
