//! C15 — sequences behave as lists whatever their representation.
use super::common::*;
use crate::dump::*;
use crate::expect::Expect;
use crate::pool::HarnessError;
use crate::runner::*;
use crate::tape::Tape;
use serde_json::Value;
use std::rc::Rc;

pub struct C15;

#[derive(Clone)]
enum MSeq {
    Fin(Vec<i128>),
    /// infinite: element by index; `increasing` = strictly increasing (count family)
    Inf(Rc<dyn Fn(usize) -> i128>, bool),
}

type M = Result<MSeq, ()>; // Err = error value

const SENT: i128 = -999;

fn lit(v: i128) -> String {
    if v < 0 {
        format!("({v})")
    } else {
        v.to_string()
    }
}

fn dump_m(m: &M) -> Value {
    match m {
        Err(()) => d_seq(vec![d_int(&SENT.into())]),
        Ok(MSeq::Fin(v)) => d_seq(v.iter().map(|x| d_int(&(*x).into())).collect()),
        Ok(MSeq::Inf(f, _)) => d_seq_inf((0..16).map(|i| d_int(&f(i).into())).collect()),
    }
}

struct Builder<'a, 'b> {
    t: &'a mut Tape<'b>,
    binds: Vec<(String, M)>,
    lines: Vec<String>,
    probes: Vec<(String, i128)>,
    reprs: Vec<&'static str>,
    ops: Vec<&'static str>,
    edge: bool,
}

fn norm_idx(i: i128, len: usize) -> Option<usize> {
    let j = if i < 0 { i + len as i128 } else { i };
    if j >= 0 && j < len as i128 {
        Some(j as usize)
    } else {
        None
    }
}

impl<'a, 'b> Builder<'a, 'b> {
    fn idx(&mut self, len: usize) -> i128 {
        let l = len as i128;
        let c = *self.t.pick(&[0i128, 1, l - 1, l / 2, -1, -l, l, l + 1, -l - 1, 2, -2, 1 << 63, 1 << 64]);
        if c >= l || c < -l {
            self.edge = true;
        }
        c
    }

    fn count_n(&mut self, len: usize) -> i128 {
        let l = len as i128;
        let c = *self.t.pick(&[0i128, 1, 2, l - 1, l, l + 1, l / 2, 3, (1 << 63) - 1]);
        if c >= l {
            self.edge = true;
        }
        c.max(0)
    }

    fn small(&mut self) -> i128 {
        self.t.range(-5, 9) as i128
    }

    fn bind(&mut self, src: String, m: M, repr: &'static str, op: &'static str) -> usize {
        let name = format!("s{}", self.binds.len());
        self.lines.push(format!("let {name} = {src};"));
        self.binds.push((name, m));
        self.reprs.push(repr);
        self.ops.push(op);
        self.binds.len() - 1
    }

    fn source(&mut self) {
        match self.t.below(9) {
            8 => {
                // two ranges with the same step where the second starts at the first one's end bound
                // (aligned to the stride or not), chained directly
                let a = self.small();
                let step = *self.t.pick(&[1i128, 2, 3, -2, -3, 5, -1]);
                let (l1, l2) = (self.t.range(0, 9) as i128, self.t.range(0, 9) as i128);
                let dir = if step > 0 { 1 } else { -1 };
                let b = a + dir * l1;
                let c = b + dir * l2;
                let walk = |from: i128, to: i128| -> Vec<i128> {
                    let mut v = vec![];
                    let mut x = from;
                    while (step > 0 && x < to) || (step < 0 && x > to) {
                        v.push(x);
                        x += step;
                    }
                    v
                };
                let mut v = walk(a, b);
                v.extend(walk(b, c));
                let src = format!("range({}, {}, {}) + range({}, {}, {})", lit(a), lit(b), lit(step), lit(b), lit(c), lit(step));
                self.bind(src, Ok(MSeq::Fin(v)), "chain", "adjacent_ranges");
            }
            0 | 1 => {
                let n = self.t.below(7);
                let v: Vec<i128> = (0..n).map(|_| self.small()).collect();
                let src = if v.is_empty() {
                    "take([0], 0)".to_string()
                } else {
                    format!("[{}]", v.iter().map(|x| lit(*x)).collect::<Vec<_>>().join(", "))
                };
                self.bind(src, Ok(MSeq::Fin(v)), "array", "literal");
            }
            2 => {
                let n = self.t.range(-2, 8) as i128;
                let v: Vec<i128> = (0..n.max(0)).collect();
                self.bind(format!("range({})", lit(n)), Ok(MSeq::Fin(v)), "range", "range1");
            }
            3 | 4 => {
                // start, end, step with every sign combination and 64-bit edges
                let edge = self.t.chance(50);
                let base: i128 = if edge {
                    self.edge = true;
                    *self.t.pick(&[i64::MAX as i128 - 4, i64::MIN as i128, i64::MAX as i128 - 1, -(1i128 << 62)])
                } else {
                    self.small()
                };
                let span = self.t.range(-6, 9) as i128;
                let step = *self.t.pick(&[1i128, 2, 3, -1, -2, 5, 1, -3]);
                let (a, b) = (base, (base + span).clamp(i64::MIN as i128, i64::MAX as i128));
                let mut v = vec![];
                let mut x = a;
                while (step > 0 && x < b) || (step < 0 && x > b) {
                    v.push(x);
                    x += step;
                    if v.len() > 40 {
                        break;
                    }
                }
                let src = if step == 1 && self.t.bool() {
                    format!("range({}, {})", lit(a), lit(b))
                } else {
                    format!("range({}, {}, {})", lit(a), lit(b), lit(step))
                };
                self.bind(src, Ok(MSeq::Fin(v)), "range", "range3");
            }
            5 => {
                self.bind("count()".into(), Ok(MSeq::Inf(Rc::new(|i| i as i128), true)), "count", "count");
            }
            6 => {
                let a = self.small();
                let st = self.t.range(1, 4) as i128;
                let src = if st == 1 && self.t.bool() {
                    format!("count({})", lit(a))
                } else {
                    format!("count({}, {})", lit(a), lit(st))
                };
                self.bind(
                    src,
                    Ok(MSeq::Inf(Rc::new(move |i| a + st * i as i128), true)),
                    "count_map",
                    "count2",
                );
            }
            _ => {
                // infinite repetition of a non-empty literal
                let n = 1 + self.t.below(3);
                let v: Vec<i128> = (0..n).map(|_| self.small()).collect();
                let src = format!("repeat([{}])", v.iter().map(|x| lit(*x)).collect::<Vec<_>>().join(", "));
                let vv = v.clone();
                self.bind(
                    src,
                    Ok(MSeq::Inf(Rc::new(move |i| vv[i % vv.len()]), false)),
                    "repeat_inf",
                    "repeat_inf",
                );
            }
        }
    }

    fn pick_bind(&mut self) -> usize {
        // later bindings are preferred: chains of operations
        let n = self.binds.len();
        if self.t.bool() {
            n - 1
        } else {
            self.t.below(n)
        }
    }

    /// a binding that is not an error value (second operands)
    fn pick_ok(&mut self) -> usize {
        let c: Vec<usize> = (0..self.binds.len()).filter(|i| self.binds[*i].1.is_ok()).collect();
        if c.is_empty() {
            0
        } else if self.t.bool() {
            *c.last().unwrap()
        } else {
            *self.t.pick(&c)
        }
    }

    fn pick_finite(&mut self) -> Option<usize> {
        let c: Vec<usize> = (0..self.binds.len())
            .filter(|i| matches!(self.binds[*i].1, Ok(MSeq::Fin(_))))
            .collect();
        if c.is_empty() {
            None
        } else if self.t.bool() {
            c.last().copied()
        } else {
            Some(*self.t.pick(&c))
        }
    }

    fn step(&mut self) {
        let ai = self.pick_bind();
        let (an, am) = self.binds[ai].clone();
        match am {
            Err(()) => {
                // an error value propagates through any operation
                self.bind(format!("{an}.take(1)"), Err(()), "error", "on_error");
            }
            Ok(MSeq::Inf(f, inc)) => match self.t.below(8) {
                0 | 1 => {
                    let n = self.t.below(9);
                    let v: Vec<i128> = (0..n).map(|i| f(i)).collect();
                    self.bind(format!("{an}.take({n})"), Ok(MSeq::Fin(v)), "slice", "take_inf");
                }
                2 => {
                    let n = self.t.below(6);
                    let g = f.clone();
                    self.bind(
                        format!("{an}.skip({n})"),
                        Ok(MSeq::Inf(Rc::new(move |i| g(i + n)), inc)),
                        "slice",
                        "skip_inf",
                    );
                }
                3 => {
                    let g = f.clone();
                    self.bind(
                        format!("{an}.map((x: int) -> {{ x * 2 + 1 }})"),
                        Ok(MSeq::Inf(Rc::new(move |i| g(i) * 2 + 1), inc)),
                        "map",
                        "map_inf",
                    );
                }
                4 => {
                    if let Some(bi) = self.pick_finite() {
                        let (bn, bm) = self.binds[bi].clone();
                        let Ok(MSeq::Fin(bv)) = bm else { return };
                        let v: Vec<i128> = bv.iter().enumerate().map(|(i, y)| f(i) * 1000 + y).collect();
                        let src = if self.t.bool() {
                            format!("zip({an}, {bn}).map((p: (int, int)) -> {{ p::item0 * 1000 + p::item1 }})")
                        } else {
                            format!("zip({bn}, {an}).map((p: (int, int)) -> {{ p::item1 * 1000 + p::item0 }})")
                        };
                        self.bind(src, Ok(MSeq::Fin(v)), "zip", "zip_inf");
                    }
                }
                5 => {
                    if let Some(bi) = self.pick_finite() {
                        let (bn, bm) = self.binds[bi].clone();
                        let Ok(MSeq::Fin(bv)) = bm else { return };
                        let g = f.clone();
                        let k = bv.len();
                        // an empty left part makes the result the right part itself
                        self.bind(
                            format!("{bn} + {an}"),
                            Ok(MSeq::Inf(
                                Rc::new(move |i| if i < k { bv[i] } else { g(i - k) }),
                                false,
                            )),
                            "chain",
                            "chain_inf",
                        );
                    }
                }
                6 => {
                    if inc {
                        let k = f(self.t.below(7));
                        let mut v = vec![];
                        let mut i = 0;
                        while f(i) < k {
                            v.push(f(i));
                            i += 1;
                        }
                        self.bind(
                            format!("{an}.take_while((x: int) -> {{ x < {} }})", lit(k)),
                            Ok(MSeq::Fin(v)),
                            "slice",
                            "take_while_inf",
                        );
                    }
                }
                _ => {
                    // infinite + anything is an error ("first sequence is infinite")
                    self.bind(format!("{an} + [1]"), Err(()), "error", "inf_plus");
                }
            },
            Ok(MSeq::Fin(av)) => {
                let len = av.len();
                match self.t.below(26) {
                    0 => {
                        let n = self.count_n(len);
                        let v = av.iter().take(n.min(100) as usize).copied().collect();
                        self.bind(format!("{an}.take({n})"), Ok(MSeq::Fin(v)), "slice", "take");
                    }
                    1 => {
                        let n = self.count_n(len);
                        let v = av.iter().skip(n.min(100) as usize).copied().collect();
                        self.bind(format!("{an}.skip({n})"), Ok(MSeq::Fin(v)), "slice", "skip");
                    }
                    2 => {
                        // slice of slice of slice
                        let (a, b, c) = (self.t.below(4), self.t.below(6), self.t.below(3));
                        let v: Vec<i128> = av.iter().skip(a).take(b).skip(c).copied().collect();
                        self.bind(
                            format!("{an}.skip({a}).take({b}).skip({c})"),
                            Ok(MSeq::Fin(v)),
                            "slice",
                            "slice3",
                        );
                    }
                    3 | 4 => {
                        let bi = self.pick_ok();
                        let (bn, bm) = self.binds[bi].clone();
                        let m = match bm {
                            Err(()) => Err(()),
                            Ok(MSeq::Fin(bv)) => Ok(MSeq::Fin(av.iter().chain(bv.iter()).copied().collect())),
                            Ok(MSeq::Inf(g, _)) => {
                                let a2 = av.clone();
                                Ok(MSeq::Inf(
                                    Rc::new(move |i| if i < a2.len() { a2[i] } else { g(i - a2.len()) }),
                                    false,
                                ))
                            }
                        };
                        let src = if self.t.bool() {
                            format!("{an} + {bn}")
                        } else {
                            format!("add({an}, {bn})")
                        };
                        self.bind(src, m, "chain", "add");
                    }
                    5 => {
                        let v = av.iter().map(|x| x * 2 + 1).collect();
                        self.bind(
                            format!("{an}.map((x: int) -> {{ x * 2 + 1 }})"),
                            Ok(MSeq::Fin(v)),
                            "map",
                            "map",
                        );
                    }
                    6 => {
                        let x = self.small();
                        let mut v = av.clone();
                        v.push(x);
                        self.bind(format!("{an}.push({})", lit(x)), Ok(MSeq::Fin(v)), "array", "push");
                    }
                    7 => {
                        let x = self.small();
                        let mut v = vec![x];
                        v.extend(&av);
                        self.bind(format!("{an}.rpush({})", lit(x)), Ok(MSeq::Fin(v)), "array", "rpush");
                    }
                    8 => {
                        let i = self.idx(len);
                        let x = self.small();
                        if i == len as i128 {
                            // inserting at index len is not pinned down by the book: skip
                            return;
                        }
                        let m = match norm_idx(i, len) {
                            Some(j) => {
                                let mut v = av.clone();
                                v.insert(j, x);
                                Ok(MSeq::Fin(v))
                            }
                            None => Err(()),
                        };
                        self.bind(format!("{an}.insert({}, {})", lit(i), lit(x)), m, "array", "insert");
                    }
                    9 => {
                        let i = self.idx(len);
                        let m = match norm_idx(i, len) {
                            Some(j) => {
                                let mut v = av.clone();
                                v.remove(j);
                                Ok(MSeq::Fin(v))
                            }
                            None => Err(()),
                        };
                        self.bind(format!("{an}.pop({})", lit(i)), m, "array", "pop");
                    }
                    10 => {
                        let i = self.idx(len);
                        let x = self.small();
                        let m = match norm_idx(i, len) {
                            Some(j) => {
                                let mut v = av.clone();
                                v[j] = x;
                                Ok(MSeq::Fin(v))
                            }
                            None => Err(()),
                        };
                        self.bind(format!("{an}.set({}, {})", lit(i), lit(x)), m, "array", "set");
                    }
                    11 => {
                        let i = self.idx(len);
                        let j = self.idx(len);
                        let m = match (norm_idx(i, len), norm_idx(j, len)) {
                            (Some(a), Some(b)) => {
                                let mut v = av.clone();
                                v.swap(a, b);
                                Ok(MSeq::Fin(v))
                            }
                            _ => Err(()),
                        };
                        self.bind(format!("{an}.swap({}, {})", lit(i), lit(j)), m, "array", "swap");
                    }
                    12 => {
                        let v = av.iter().rev().copied().collect();
                        self.bind(format!("{an}.reverse()"), Ok(MSeq::Fin(v)), "map", "reverse");
                    }
                    13 => {
                        let n = self.t.below(4);
                        let mut v = vec![];
                        for _ in 0..n {
                            v.extend(&av);
                        }
                        let src = match self.t.below(3) {
                            0 => format!("{an}.repeat({n})"),
                            1 => format!("{an} * {n}"),
                            _ => format!("mul({an}, {n})"),
                        };
                        self.bind(src, Ok(MSeq::Fin(v)), "map", "repeat_n");
                    }
                    14 => {
                        self.bind(format!("{an}.to_array()"), Ok(MSeq::Fin(av.clone())), "array", "to_array");
                    }
                    15 => {
                        let k = if av.is_empty() { 0 } else { *self.t.pick(&av) };
                        let v = av.iter().take_while(|x| **x < k).copied().collect();
                        self.bind(
                            format!("{an}.take_while((x: int) -> {{ x < {} }})", lit(k)),
                            Ok(MSeq::Fin(v)),
                            "slice",
                            "take_while",
                        );
                    }
                    16 => {
                        let k = if av.is_empty() { 0 } else { *self.t.pick(&av) };
                        let v = av.iter().skip_while(|x| **x < k).copied().collect();
                        self.bind(
                            format!("{an}.skip_until((x: int) -> {{ x >= {} }})", lit(k)),
                            Ok(MSeq::Fin(v)),
                            "slice",
                            "skip_until",
                        );
                    }
                    17 => {
                        let bi = self.pick_ok();
                        let (bn, bm) = self.binds[bi].clone();
                        let m = match bm {
                            Err(()) => Err(()),
                            Ok(MSeq::Fin(bv)) => Ok(MSeq::Fin(
                                av.iter().zip(bv.iter()).map(|(x, y)| x * 1000 + y).collect(),
                            )),
                            Ok(MSeq::Inf(g, _)) => Ok(MSeq::Fin(
                                av.iter().enumerate().map(|(i, x)| x * 1000 + g(i)).collect(),
                            )),
                        };
                        self.bind(
                            format!("zip({an}, {bn}).map((p: (int, int)) -> {{ p::item0 * 1000 + p::item1 }})"),
                            m,
                            "zip",
                            "zip",
                        );
                    }
                    18 => {
                        let st = self.small();
                        let step = self.t.range(1, 3) as i128;
                        let v = av
                            .iter()
                            .enumerate()
                            .map(|(i, x)| (st + step * i as i128) * 1000 + x)
                            .collect();
                        let src = match self.t.below(3) {
                            0 if st == 0 && step == 1 => {
                                format!("enumerate({an}).map((p: (int, int)) -> {{ p::item0 * 1000 + p::item1 }})")
                            }
                            1 if step == 1 => format!(
                                "enumerate({an}, {}).map((p: (int, int)) -> {{ p::item0 * 1000 + p::item1 }})",
                                lit(st)
                            ),
                            _ => format!(
                                "enumerate({an}, {}, {}).map((p: (int, int)) -> {{ p::item0 * 1000 + p::item1 }})",
                                lit(st),
                                lit(step)
                            ),
                        };
                        self.bind(src, Ok(MSeq::Fin(v)), "zip", "enumerate");
                    }
                    19 => {
                        if let Some(bi) = self.pick_finite() {
                            let (bn, bm) = self.binds[bi].clone();
                            let Ok(MSeq::Fin(bv)) = bm else { return };
                            let n = len.min(bv.len());
                            let which = self.t.below(2);
                            let v = if which == 0 { av[..n].to_vec() } else { bv[..n].to_vec() };
                            self.bind(
                                format!("unzip(zip({an}, {bn}))::item{which}"),
                                Ok(MSeq::Fin(v)),
                                "unzip",
                                "unzip",
                            );
                        }
                    }
                    20 => {
                        self.bind(
                            format!("{an}.to_stack().to_array()"),
                            Ok(MSeq::Fin(av.clone())),
                            "array",
                            "stack_roundtrip",
                        );
                    }
                    21 => {
                        if let Some(bi) = self.pick_finite() {
                            let (bn, bm) = self.binds[bi].clone();
                            let Ok(MSeq::Fin(bv)) = bm else { return };
                            let rev = self.t.bool();
                            let mut v = av.clone();
                            if rev {
                                v.extend(bv.iter());
                            } else {
                                v.extend(bv.iter().rev());
                            }
                            let f = if rev { "add_rev" } else { "add" };
                            self.bind(format!("{f}({an}, {bn}.to_stack())"), Ok(MSeq::Fin(v)), "array", "add_stack");
                        }
                    }
                    22 => {
                        self.bind(
                            format!("{an}.to_generator().to_array()"),
                            Ok(MSeq::Fin(av.clone())),
                            "array",
                            "generator_roundtrip",
                        );
                    }
                    23 => {
                        let v = av.iter().filter(|x| **x % 2 != 0).copied().collect();
                        self.bind(
                            format!("{an}.filter((x: int) -> {{ x % 2 != 0 }}).to_array()"),
                            Ok(MSeq::Fin(v)),
                            "array",
                            "filter",
                        );
                    }
                    24 => {
                        // chain of chains with empty parts
                        let v: Vec<i128> = av.iter().chain(av.iter()).copied().collect();
                        self.bind(
                            format!("(take([0], 0) + {an}) + (take([0], 0) + ({an} + take([0], 0)))"),
                            Ok(MSeq::Fin(v)),
                            "chain",
                            "chain_empty",
                        );
                    }
                    _ => {
                        // infinite repetition, then a finite prefix
                        if !av.is_empty() {
                            let n = self.t.below(10);
                            let v = (0..n).map(|i| av[i % len]).collect();
                            self.bind(format!("{an}.repeat().take({n})"), Ok(MSeq::Fin(v)), "slice", "repeat_take");
                        }
                    }
                }
            }
        }
    }

    fn probe(&mut self) {
        let ai = self.pick_bind();
        let (an, am) = self.binds[ai].clone();
        let err = SENT;
        match am {
            Err(()) => self.probes.push((format!("len({an})"), err)),
            Ok(MSeq::Inf(f, inc)) => match self.t.below(5) {
                0 => self.probes.push((format!("len({an})"), err)),
                1 => {
                    let i = self.t.below(40);
                    self.probes.push((format!("{an}[{i}]"), f(i)));
                }
                2 => self.probes.push((format!("if({an}.is_infinite(), 1, 0)"), 1)),
                3 if inc => {
                    let k = f(self.t.below(9));
                    let n = self.t.below(3);
                    let v = (0..).map(|i| f(i)).filter(|x| *x >= k).nth(n).unwrap();
                    self.probes.push((
                        format!("or({an}.nth({n}, (x: int) -> {{ x >= {} }}), -998)", lit(k)),
                        v,
                    ));
                }
                _ => self.probes.push((format!("{an}.get(-1)"), err)),
            },
            Ok(MSeq::Fin(av)) => {
                let len = av.len();
                match self.t.below(11) {
                    0 => self.probes.push((format!("len({an})"), len as i128)),
                    1 | 2 => {
                        let i = self.idx(len);
                        let e = norm_idx(i, len).map_or(err, |j| av[j]);
                        let s = if self.t.bool() {
                            format!("{an}[{}]", lit(i))
                        } else {
                            format!("get({an}, {})", lit(i))
                        };
                        self.probes.push((s, e));
                    }
                    3 => {
                        let n = self.t.range(-3, 3) as i128;
                        let sat: Vec<i128> = av.iter().filter(|x| **x % 2 == 0).copied().collect();
                        let e = if n >= 0 {
                            sat.get(n as usize).copied().unwrap_or(-998)
                        } else {
                            let k = (-n) as usize;
                            if k <= sat.len() {
                                sat[sat.len() - k]
                            } else {
                                -998
                            }
                        };
                        self.probes.push((
                            format!("or({an}.nth({}, (x: int) -> {{ x % 2 == 0 }}), -998)", lit(n)),
                            e,
                        ));
                    }
                    4 => {
                        let e = av.iter().find(|x| **x > 2).copied().unwrap_or(-998);
                        self.probes
                            .push((format!("or({an}.first((x: int) -> {{ x > 2 }}), -998)"), e));
                    }
                    5 => {
                        let e = av.iter().rev().find(|x| **x > 2).copied().unwrap_or(-998);
                        self.probes
                            .push((format!("or({an}.last((x: int) -> {{ x > 2 }}), -998)"), e));
                    }
                    6 => {
                        let v = self.small();
                        self.probes.push((
                            format!("if({an}.contains({}), 1, 0)", lit(v)),
                            av.contains(&v) as i128,
                        ));
                    }
                    7 => {
                        self.probes.push((
                            format!("{an}.count((x: int) -> {{ x > 0 }})"),
                            av.iter().filter(|x| **x > 0).count() as i128,
                        ));
                    }
                    8 => self.probes.push((format!("sum({an})"), av.iter().sum())),
                    9 => self.probes.push((format!("if({an}.is_infinite(), 1, 0)"), 0)),
                    _ => {
                        let sorted = av.windows(2).all(|w| w[0] <= w[1]);
                        if sorted {
                            let k = self.small();
                            self.probes.push((
                                format!("{an}.bisect((x: int) -> {{ x < {} }})", lit(k)),
                                av.iter().filter(|x| **x < k).count() as i128,
                            ));
                        } else {
                            let bi = self.pick_bind();
                            let (bn, bm) = self.binds[bi].clone();
                            if let Ok(MSeq::Fin(bv)) = bm {
                                self.probes
                                    .push((format!("if({an} == {bn}, 1, 0)"), (av == bv) as i128));
                            }
                        }
                    }
                }
            }
        }
    }
}

fn gen_case(t: &mut Tape) -> ValCase {
    let mut b = Builder {
        t,
        binds: vec![],
        lines: vec![],
        probes: vec![],
        reprs: vec![],
        ops: vec![],
        edge: false,
    };
    b.source();
    if b.t.bool() {
        b.source();
    }
    let nops = 1 + b.t.below(10);
    for _ in 0..nops {
        if b.binds.len() >= 12 {
            break;
        }
        if b.t.below(6) == 0 {
            b.source();
        } else {
            b.step();
        }
    }
    let nprobes = b.t.below(4);
    for _ in 0..nprobes {
        b.probe();
    }
    let mut parts: Vec<String> = vec![];
    let mut expected: Vec<Value> = vec![];
    let mut types: Vec<&str> = vec![];
    for (n, m) in &b.binds {
        parts.push(format!("if_error({n}, [{SENT}])"));
        expected.push(dump_m(m));
        types.push("Sequence<int>");
    }
    for (i, (src, e)) in b.probes.iter().enumerate() {
        b.lines.push(format!("let p{i} = {src};"));
        parts.push(format!("if_error(p{i}, {SENT})"));
        expected.push(d_int(&(*e).into()));
        types.push("int");
    }
    let (ret, tuple) = if parts.len() == 1 {
        (format!("({})", types[0]), format!("({},)", parts[0]))
    } else {
        (format!("({})", types.join(", ")), format!("({})", parts.join(", ")))
    };
    let body = format!("{}\n  {}", b.lines.join("\n  "), tuple);
    let mut c = ValCase::new(&ret, body, Expect::Dump { dump: d_tuple(expected) });
    let mut reprs = b.reprs.clone();
    reprs.sort();
    reprs.dedup();
    let nsteps = b.ops.len();
    c.nontrivial = (nsteps >= 3 && reprs.len() >= 2) || b.edge;
    c.describe = format!("{} bindings ({}), {} probes", nsteps, b.ops.join(","), b.probes.len());
    for o in &b.ops {
        c = c.class(format!("op:{o}"));
    }
    for r in &reprs {
        c = c.class(format!("repr:{r}"));
    }
    c.key("ops", b.ops.join(","))
}

impl Property for C15 {
    fn id(&self) -> &'static str {
        "C15"
    }
    fn rule(&self) -> String {
        "A program of 1-12 let-bound sequence operations over array literals, ranges (all sign combinations of start/end/step, 64-bit edges), count(), infinite repeat and earlier results (take, skip, nested slices, +, map, push, rpush, insert, pop, set, swap, reverse, repeat/mul, to_array, take_while, skip_until, zip, enumerate, unzip, stack and generator round trips, filter, chains with empty parts), indices from {0,1,len-1,len,len+1,-1,-len,-len-1,2^63,2^64}, plus scalar probes (len, get, nth, first, last, contains, count, sum, is_infinite, bisect, ==); the function returns EVERY binding at the end, so each earlier sequence is re-read after all later operations (persistence). Oracle: plain Vec semantics (a 16-element prefix for infinite values; out-of-range => error value). Non-trivial = at least 3 bindings over at least 2 different representations, or an edge index/endpoint. Distinct by function body.".into()
    }
    fn assumptions(&self) -> Vec<String> {
        vec![
            "element type int; zip/enumerate/unzip are observed through a map back to int".into(),
            "insert at index len, negative counts for take/skip, and repeat of an empty sequence are not generated (not pinned down by the book)".into(),
        ]
    }
    fn families(&self, tier: Tier) -> Vec<Family> {
        let k = if tier == Tier::Quick { 1 } else { 25 };
        vec![Family {
            name: "trees",
            batches: 1100 * k,
            batch_size: 30,
            tape_len: 120,
        }]
    }
    fn run_batch(&self, _family: &str, subs: &[Vec<u8>], ctx: &mut Ctx) -> Result<Vec<CaseOutcome>, HarnessError> {
        let cases: Vec<ValCase> = subs
            .iter()
            .map(|s| {
                let mut t = Tape::new(s);
                gen_case(&mut t)
            })
            .collect();
        run_val_batch(cases, ctx, "value_mismatch")
    }
}
