//! C06 — errors propagate as values; violations cannot be caught.
use super::c13::{float_pool, int_pool, lib, str_pool};
use super::common::*;
use crate::direct::{end_failure, make_direct};
use crate::expect::{brief, satisfied, Expect};
use crate::gstd::*;
use crate::pool::HarnessError;
use crate::proto::*;
use crate::runner::*;
use crate::tape::{fnv, Tape};
use serde_json::json;
use std::collections::HashMap;

pub struct C06;

/// functions documented to inspect, drop or short-circuit on their arguments (book:
/// Short-Circuiting Functions, Runtime Errors), plus effectful ones that are C11's business
const HANDLERS: &[&str] = &[
    // set_default: the shipped script 351_set_default.xr establishes that the value is not
    // evaluated when the key is present (caller behaviour; the book is silent)
    "if", "and", "or", "then", "if_error", "is_error", "get_error", "map_or", "map", "get", "set_default", "debug", "display",
    "error", "assert", "cast", "partial", "sleep", "__std_sleep", "regex", "now", "random", "sample", "shuffle",
    "random_choices", "match", "search",
];

fn simple_cfg() -> GenCfg {
    GenCfg {
        call_chance: 0,
        int_pool: ["0", "1", "2", "3", "(-1)", "7"].iter().map(|s| s.to_string()).collect(),
        float_pool: ["0.5", "1.0", "2.0", "(-1.5)"].iter().map(|s| s.to_string()).collect(),
        str_pool: ["\"a\"", "\"ab\"", "\"\""].iter().map(|s| s.to_string()).collect(),
        empty_containers: false,
    }
}

/// error injected at one or two argument positions of a library function
fn usable_fns(lib: &Lib) -> Vec<usize> {
    lib.fns
        .iter()
        .enumerate()
        .filter(|(_, f)| !HANDLERS.contains(&f.name.as_str()) && !f.name.starts_with("__") && !f.params.is_empty())
        .map(|(i, _)| i)
        .collect()
}

/// `forced`: (function index, error position, other arguments empty containers)
fn gen_lib_error_case(t: &mut Tape, lib: &Lib, forced: Option<(usize, usize, bool)>) -> ValCase {
    let mut cfg = simple_cfg();
    cfg.empty_containers = forced.map_or(false, |f| f.2);
    let usable: Vec<usize> = lib
        .fns
        .iter()
        .enumerate()
        .filter(|(_, f)| {
            !HANDLERS.contains(&f.name.as_str()) && !f.name.starts_with("__") && !f.params.is_empty()
        })
        .map(|(i, _)| i)
        .collect();
    let fi = match forced {
        Some((fi, _, _)) => fi,
        None => *t.pick(&usable),
    };
    let sig = lib.fns[fi].clone();
    let mut g = Gen {
        lib,
        t,
        cfg: &cfg,
        env: vec![],
        counter: 0,
        used: vec![],
        excluded_fns: vec![],
        redirected: 0,
    };
    let mut b = HashMap::new();
    for gname in &sig.generics {
        let c = g.concrete();
        b.insert(gname.clone(), c);
    }
    let ret = g.concretize(&sig.ret.subst(&b));
    let required = sig.params.iter().take_while(|p| p.1).count();
    let n = match forced {
        Some((_, pos, _)) => required.max(pos + 1).min(sig.params.len()),
        None => required + g.t.below(sig.params.len() - required + 1),
    };
    let n = n.max(1);
    let ptypes: Vec<Ty> = sig.params[..n].iter().map(|(p, _)| g.concretize(&p.subst(&b))).collect();
    // positions that receive an error: one, sometimes two
    let uniq = g.t.u32();
    let (first, second) = match forced {
        Some((_, pos, _)) => (pos.min(n - 1), None),
        None => {
            let first = g.t.below(n);
            (first, if n >= 2 && g.t.below(3) == 0 { Some(g.t.below(n)) } else { None })
        }
    };
    let mut prelude = String::new();
    let mut args = vec![];
    for (i, pt) in ptypes.iter().enumerate() {
        if i == first || Some(i) == second {
            // a typed error producer with a recognisable message
            prelude.push_str(&format!("fn err{i}_{fi}_{uniq}() -> {} {{ error(\"E{i}\") }}\n", pt.src()));
            args.push(format!("err{i}_{fi}_{uniq}()"));
        } else {
            args.push(g.expr(pt, 0));
        }
    }
    let leftmost = second.map_or(first, |s| s.min(first));
    let body = if !args.is_empty() && g.t.below(3) == 0 {
        format!("({}).{}({})", args[0], sig.name, args[1..].join(", "))
    } else {
        format!("{}({})", sig.name, args.join(", "))
    };
    // a leaf to the left that can itself be an error value (distribution constructors reject
    // some parameters) would be the leftmost error
    let left_may_fail = args[..leftmost].iter().any(|a| a.contains("_distribution("));
    let mut c = ValCase::new(
        &ret.src(),
        body,
        Expect::Error { msg: if left_may_fail { None } else { Some(format!("E{leftmost}")) } },
    );
    c.prelude = prelude;
    c.reject_ok = true;
    c.nontrivial = leftmost > 0 || second.is_some();
    c.describe = format!("{} with an error at argument {first}{}", sig.name, second.map_or(String::new(), |s| format!(" and {s}")));
    c.key("fn", sig.name.clone())
        .key("position", leftmost.to_string())
        .class(format!("fn:{}", sig.name))
        .class(format!("position:{}", leftmost.min(3)))
}

/// error injected into constructions, user functions, lambdas, callable parameters, insertions
fn gen_core_error_case(t: &mut Tape) -> ValCase {
    let pos = t.below(3);
    // often a second error further right: the leftmost one must win
    let pos2 = if pos < 2 && t.bool() { Some(pos + 1 + t.below(2 - pos)) } else { None };
    let other = |i: usize| {
        if i == pos || Some(i) == pos2 {
            format!("bad{i}()")
        } else {
            format!("{}", i + 1)
        }
    };
    let a = [other(0), other(1), other(2)];
    let prelude = format!(
        "fn bad0() -> int {{ error(\"E0\") }}\nfn bad1() -> int {{ error(\"E1\") }}\nfn bad2() -> int {{ error(\"E2\") }}\nfn bad_seq() -> Sequence<int> {{ error(\"ES\") }}\nfn user3(a: int, b: int, c: int) -> int {{ a + b + c }}\nfn user_opt(a: int, b: int ?= 5, c: int ?= 6) -> int {{ a + b + c }}\nstruct P3(x: int, y: int, z: int)\nunion U3(i: int, s: str)\nfn call3(f: (int, int, int)->(int), a: int, b: int, c: int) -> int {{ f(a, b, c) }}\n"
    );
    let shapes: &[(&str, &str, String)] = &[
        ("user_function", "int", format!("user3({}, {}, {})", a[0], a[1], a[2])),
        ("user_function_method", "int", format!("({}).user3({}, {})", a[0], a[1], a[2])),
        ("user_function_optional", "int", format!("user_opt({}, {}, {})", a[0], a[1], a[2])),
        ("lambda", "int", format!("((p: int, q: int, r: int) -> {{ p * q * r }})({}, {}, {})", a[0], a[1], a[2])),
        ("callable_parameter", "int", format!("call3(user3, {}, {}, {})", a[0], a[1], a[2])),
        ("callable_variable", "int", format!("{{F}}({}, {}, {})", a[0], a[1], a[2])),
        ("array", "Sequence<int>", format!("[{}, {}, {}]", a[0], a[1], a[2])),
        ("tuple", "(int, int, int)", format!("({}, {}, {})", a[0], a[1], a[2])),
        ("struct", "P3", format!("P3({}, {}, {})", a[0], a[1], a[2])),
        ("nested_construction", "Sequence<(int, int)>", format!("[({}, {}), ({}, 9)]", a[0], a[1], a[2])),
        ("operator", "int", format!("{} + {} * {}", a[0], a[1], a[2])),
        ("index", "int", format!("[10, 20, 30, 40][{}] + {} + {}", a[0], a[1], a[2])),
        ("push", "Sequence<int>", format!("[{}].push({}).push({})", a[0], a[1], a[2])),
        ("sequence_set", "Sequence<int>", format!("[5, 6, 7].set({} - 1, {} + {})", a[0], a[1], a[2])),
        ("mapping_set", "Mapping<int, int>", format!("mapping<int>().set({}, {}).set(9, {})", a[0], a[1], a[2])),
        ("set_add", "Set<int>", format!("set<int>().add({}).add({}).add({})", a[0], a[1], a[2])),
        ("set_update", "Set<int>", format!("set<int>().update([{}, {}, {}])", a[0], a[1], a[2])),
        ("stack_push", "Stack<int>", format!("stack().push({}).push({}).push({})", a[0], a[1], a[2])),
        ("some", "Optional<(int, int, int)>", format!("some(({}, {}, {}))", a[0], a[1], a[2])),
    ];
    // dynamic library functions (not in the static table): the error is a whole argument
    let dyn_shapes: &[(&str, &str, &str)] = &[
        ("zip_right", "Sequence<(int, int)>", "zip([1, 2], bad_seq())"),
        ("zip_right_of_empty", "Sequence<(int, int)>", "zip(take([0], 0), bad_seq())"),
        ("zip_left", "Sequence<(int, int)>", "zip(bad_seq(), [1, 2])"),
        ("zip_generators", "Sequence<(int, int)>", "zip(take([0], 0).to_generator(), bad_seq().to_generator()).to_array()"),
        ("concat_right_of_empty", "Sequence<int>", "take([0], 0) + bad_seq()"),
        ("concat_left", "Sequence<int>", "bad_seq() + [1]"),
        ("seq_eq", "bool", "[1] == bad_seq()"),
        ("seq_cmp", "int", "cmp(bad_seq(), [1])"),
        ("seq_hash", "int", "hash(bad_seq())"),
        ("seq_to_str", "str", "to_str(bad_seq())"),
        ("sort_dyn", "Sequence<int>", "sort(bad_seq())"),
        ("max_dyn", "int", "max(bad_seq())"),
        ("sum_dyn", "int", "sum(bad_seq())"),
        ("contains_dyn", "bool", "[1, 2].contains(bad1())"),
        ("tuple_eq", "bool", "(1, bad1()) == (1, 2)"),
        ("mapping_update", "int", "len(mapping<int>().update(zip([1], bad_seq())))"),
        ("set_dyn_update", "int", "len(set<int>().update(bad_seq()))"),
        ("json_dyn", "JSON", "json(bad_seq())"),
        ("mean_dyn", "float", "mean(bad_seq())"),
        ("unzip_dyn", "Sequence<int>", "unzip(zip(bad_seq(), [1]))::item0"),
    ];
    if t.below(3) == 0 {
        let (name, ret, body) = *t.pick(dyn_shapes);
        let want = if body.contains("bad1()") { "E1" } else { "ES" };
        let mut c = ValCase::new(ret, body.to_string(), Expect::Error { msg: Some(want.into()) });
        c.prelude = prelude;
        c.nontrivial = true;
        c.describe = format!("dynamic function: {name}");
        return c.key("fn", name).key("position", "dyn").class(format!("shape:{name}"));
    }
    let (name, ret, body) = t.pick(shapes).clone();
    let (body, prelude) = if name == "callable_variable" {
        (
            format!("let fv = user3;\n  {}", body.replace("{F}", "fv")),
            prelude,
        )
    } else if name == "union_variant" {
        (body, prelude)
    } else {
        (body, prelude)
    };
    let mut c = ValCase::new(ret, body, Expect::Error { msg: Some(format!("E{pos}")) });
    c.prelude = prelude;
    c.nontrivial = pos > 0 || pos2.is_some();
    c.describe = format!("{name} with an error at position {pos}{}", pos2.map_or(String::new(), |p| format!(" and {p}")));
    c.key("fn", name).key("position", pos.to_string()).class(format!("shape:{name}")).class(format!("position:{pos}"))
}

// ------------------------------------------------------------------ violations cannot be caught

const B_PRELUDE: &str = "fn rec(n: int) -> int { if(n <= 0, 0, 1 + rec(n - 1)) }\nfn work(n: int) -> int { rec(n) }\n";

struct Catcher {
    name: &'static str,
    ret: &'static str,
    /// `{P}` is the limit-tripping expression of type int
    body: &'static str,
}

const CATCHERS: &[Catcher] = &[
    Catcher { name: "if_error2", ret: "int", body: "if_error({P}, -7)" },
    Catcher { name: "if_error3", ret: "int", body: "if_error({P}, \"\", -7)" },
    Catcher { name: "is_error", ret: "bool", body: "is_error({P})" },
    Catcher { name: "is_error_msg", ret: "bool", body: "is_error({P}, \"\")" },
    Catcher { name: "get_error", ret: "Optional<str>", body: "get_error({P})" },
    Catcher { name: "if_error_default", ret: "int", body: "if_error(error(\"x\"), {P})" },
    Catcher { name: "optional_or", ret: "int", body: "or(then(false, 1), {P})" },
    Catcher { name: "then", ret: "Optional<int>", body: "then(true, {P})" },
    Catcher { name: "map_or_default", ret: "int", body: "map_or(then(false, 1), (x: int) -> { x }, {P})" },
    Catcher { name: "mapping_get_default", ret: "int", body: "get(mapping<int>().set(1, 1), 2, {P})" },
    Catcher { name: "map_callback", ret: "Sequence<int>", body: "[1, 2, 3].map((x: int) -> { if_error({P} + x, -7) }).to_array()" },
    Catcher { name: "filter_callback", ret: "Sequence<int>", body: "[1, 2, 3].filter((x: int) -> { if_error({P} >= 0, false) }).to_array()" },
    Catcher { name: "generator_filter_callback", ret: "int", body: "[1, 2, 3].to_generator().filter((x: int) -> { is_error({P}) || x > 1 }).len()" },
    Catcher { name: "reduce_callback", ret: "int", body: "[1, 2, 3].reduce(0, (a: int, x: int) -> { if_error(a + {P}, -7) })" },
    Catcher { name: "aggregate_callback", ret: "Sequence<int>", body: "[1, 2].aggregate(0, (a: int, x: int) -> { if_error(a + {P}, -7) }).to_array()" },
    Catcher { name: "sort_comparator", ret: "Sequence<int>", body: "[3, 1, 2].sort((a: int, b: int) -> { if_error({P} * 0, 0) + cmp(a, b) })" },
    Catcher { name: "nth_predicate", ret: "Optional<int>", body: "[1, 2, 3].nth(1, (x: int) -> { if_error({P} >= 0, true) })" },
    Catcher { name: "take_while_predicate", ret: "Sequence<int>", body: "[1, 2, 3].take_while((x: int) -> { if_error({P} >= 0, false) })" },
    Catcher { name: "skip_until_predicate", ret: "Sequence<int>", body: "[1, 2, 3].skip_until((x: int) -> { if_error({P} >= 0, true) })" },
    Catcher { name: "group_callback", ret: "int", body: "[1, 2, 3].to_generator().group((a: int, b: int) -> { if_error({P} >= 0, false) }).len()" },
    Catcher { name: "with_count_callbacks", ret: "int", body: "[1, 2, 1].to_generator().with_count((x: int) -> { if_error({P} * 0, 0) }, (a: int, b: int) -> { a == b }).len()" },
    Catcher { name: "update_from_keys_callback", ret: "int", body: "len(mapping<int>().update_from_keys([1, 2], (k: int) -> { if_error({P}, -7) }, (k: int, v: int) -> { v }))" },
    Catcher { name: "successors_callback", ret: "Sequence<int>", body: "successors(0, (x: int) -> { if_error({P}, -7) }).take(3).to_array()" },
    Catcher { name: "custom_mapping_hash", ret: "int", body: "len(mapping((k: int) -> { if_error({P} * 0, 0) }, (a: int, b: int) -> { a == b }).set(1, 1).set(1, 2))" },
    Catcher { name: "default_parameter", ret: "int", body: "((x: int ?= if_error({P}, -7)) -> { x })()" },
    Catcher { name: "nested_handlers", ret: "bool", body: "is_error(if_error(get_error({P}), none()))" },
    Catcher { name: "lazy_map_then_handler", ret: "int", body: "if_error([1].map((x: int) -> { {P} })[0], -7)" },
    Catcher { name: "plain", ret: "int", body: "{P}" },
];

#[derive(Clone, Copy, Debug, PartialEq)]
enum LKind {
    Calls,
    Depth,
    Search,
    Size,
}

fn run_catcher_case(t: &mut Tape, ctx: &mut Ctx) -> Result<CaseOutcome, HarnessError> {
    let c = t.pick(CATCHERS);
    let kind = *t.pick(&[LKind::Calls, LKind::Depth, LKind::Search, LKind::Size]);
    let n = t.range(3, 12);
    // the limit-tripping expression, of type int
    let p = match kind {
        LKind::Calls | LKind::Depth => format!("work({n})"),
        LKind::Search => format!("or(range(1000).first((x: int) -> {{ x >= {} }}), 0)", n * 3),
        LKind::Size => format!("len(range({}).map((x: int) -> {{ x * 1000003 }}).to_array())", n * 40),
    };
    let body = c.body.replace("{P}", &p);
    let src = format!("{B_PRELUDE}fn c0() -> {} {{\n  {body}\n}}\n", c.ret);
    let mk = |lim: Limits| {
        let mut j = Job::new(src.clone()).run("c0");
        j.limits = lim;
        j.cpu_s = 20;
        j
    };
    let mut o = CaseOutcome {
        key: fnv(format!("{src}{kind:?}").as_bytes()),
        nontrivial: c.name != "plain",
        classes: vec![format!("catcher:{}", c.name), format!("limit:{kind:?}")],
        ..Default::default()
    };
    // the unlimited outcome (for the size kind: a generous size limit, so that accounting is on)
    let base_lim = if kind == LKind::Size {
        Limits { size: Some(1 << 30), ..Limits::default() }
    } else {
        Limits::default()
    };
    let base_job = mk(base_lim);
    let base = ctx.exec(&base_job)?;
    o.evals += 1;
    if let Some(f) = end_failure(&base) {
        o.failures.push(f.direct(json!({"form": "no_crash", "job": base_job})).key("catcher", c.name));
        return Ok(o);
    }
    if !matches!(base.step(0), Out::Done) {
        // a catcher this tree does not accept: nothing to check
        o.inconclusive = true;
        o.nontrivial = false;
        return Ok(o);
    }
    let base_out = base.step(2).clone();
    let (vname, values): (&str, Vec<u64>) = match kind {
        LKind::Calls => (
            "MaximumUDCall",
            (1..=(n as u64 + 8)).chain(((n as u64 + 9)..=(3 * n as u64 + 30)).step_by(3)).collect(),
        ),
        LKind::Depth => ("MaximumStackDepth", (1..=(n as u64 + 8)).collect()),
        LKind::Search => ("MaximumSearch", (1..=(3 * n as u64 + 4)).collect()),
        // the library baseline is about 38 kB: sweep from there upwards in small steps
        LKind::Size => ("AllocationLimitReached", (0..60).map(|i| 37_000 + i * 400).collect()),
    };
    let allowed = Expect::OneOf {
        alts: vec![
            Expect::Violation { v: vname.into() },
            match &base_out {
                Out::Value { dump } => Expect::Dump { dump: crate::dump::strip(dump) },
                Out::Error { msg } => Expect::Error { msg: Some(msg.clone()) },
                _ => Expect::NoPanic,
            },
        ],
    };
    let mut tripped = 0;
    let mut passed_before = false;
    for l in values {
        let lim = match kind {
            LKind::Calls => Limits { calls: Some(l), ..Limits::default() },
            LKind::Depth => Limits { depth: Some(l), ..Limits::default() },
            LKind::Search => Limits { search: Some(l), ..Limits::default() },
            LKind::Size => Limits { size: Some(l), ..Limits::default() },
        };
        let job = mk(lim);
        let r = ctx.exec(&job)?;
        o.evals += 1;
        if let Some(f) = end_failure(&r) {
            o.failures.push(f.direct(make_direct(&job, &[(2, allowed.clone())])).key("catcher", c.name));
            break;
        }
        // a violation while instantiating (tiny limits) is also the limit's violation
        let out = if matches!(r.step(1), Out::Done) { r.step(2).clone() } else { r.step(1).clone() };
        let is_v = matches!(&out, Out::Violation { v } if v == vname);
        if is_v {
            tripped += 1;
            if passed_before && kind != LKind::Size {
                o.failures.push(
                    Failure::new(
                        "not_upward_closed",
                        format!("{} under {kind:?} limit {l}: a smaller limit passed but this one trips\n  body: {body}", c.name),
                    )
                    .key("catcher", c.name)
                    .key("limit", format!("{kind:?}"))
                    .direct(make_direct(&job, &[(2, allowed.clone())])),
                );
                break;
            }
        } else {
            passed_before = true;
        }
        if !satisfied(&allowed, &out) {
            o.failures.push(
                Failure::new(
                    if out.is_panic() { "panic" } else { "violation_caught" },
                    format!(
                        "{} under {kind:?} limit {l}: the program observed, converted or swallowed the violation\n  body: {body}\n  unlimited outcome: {}\n  outcome under the limit: {}",
                        c.name,
                        brief(&base_out),
                        brief(&out)
                    ),
                )
                .key("catcher", c.name)
                .key("limit", format!("{kind:?}"))
                .direct(make_direct(&job, &[(2, allowed.clone())])),
            );
            break;
        }
    }
    o.classes.push(if tripped > 0 { "tripped:yes".into() } else { "tripped:no".into() });
    o.nontrivial = o.nontrivial && tripped > 0;
    o.sample = Some(json!({"catcher": c.name, "limit": format!("{kind:?}"), "body": body, "unlimited": brief(&base_out), "limit_values_that_tripped": tripped}));
    Ok(o)
}

/// consumers that traverse the whole stream: an element that is an error value, or a limit that
/// trips while an element is computed, must be the outcome whichever position the element has
const CONSUMERS: &[&str] = &[
    "{G}.last()", "{G}.to_array()", "{G}.sum()", "{G}.len()", "{G}.max()", "{G}.min()", "{G}.contains(-5)", "{G}.mean()", "{G}.enumerate().last()",
    "{G}.take(100).last()", "{G}.zip(count().to_generator()).last()", "{G}.reduce(0, add{int, int})", "{G}.product()", "{G}.aggregate(0, add{int, int}).last()",
    "{G}.windows(2).last()", "{G}.distinct().last()", "{G}.chunks(2).last()", "{G}.with_count().last()", "{G}.group().last()", "{G}.to_array().len()", "{G}.skip(0).last()",
];

const SHAPES: &[(&str, &str)] = &[
    ("mapped_generator", "range(5).to_generator().map(f)"),
    ("chain_first_part", "range(5).to_generator().map(f).add([100, 200].to_generator())"),
    ("chain_second_part", "[100, 200].to_generator().add(range(5).to_generator().map(f))"),
];

fn stream_cases(ctx: &mut Ctx) -> Result<Vec<CaseOutcome>, HarnessError> {
    let mut outs = vec![];
    for (si, (shape, gen)) in SHAPES.iter().enumerate() {
        for (ci, cons) in CONSUMERS.iter().enumerate() {
            // 1. an element that is an error value, at every position
            let mut src = String::new();
            let mut names = vec![];
            for k in 0..5 {
                let g = gen.replace("map(f)", &format!("map(f{k})"));
                src.push_str(&format!("fn f{k}(x: int) -> int {{ if(x == {k}, error(\"boom{k}\"), x + 1) }}\nfn s{k}() -> bool {{ is_error({}) && get_error({}).value() == \"boom{k}\" }}\n", cons.replace("{G}", &format!("({g})")), cons.replace("{G}", &format!("({g})"))));
                names.push(format!("s{k}"));
            }
            let mut job = Job::new(src.clone());
            for n in &names {
                job.steps.push(Step::Run { name: n.clone() });
            }
            let r = ctx.exec(&job)?;
            let mut o = CaseOutcome {
                key: fnv(format!("stream|{shape}|{cons}").as_bytes()),
                nontrivial: true,
                evals: 5,
                classes: vec![format!("stream_shape:{shape}"), "stream:element_error".into()],
                ..Default::default()
            };
            if let Some(f) = end_failure(&r) {
                o.failures.push(f.key("consumer", *cons).direct(json!({"form": "no_crash", "job": job})));
            } else if !matches!(r.step(0), Out::Done) {
                o.inconclusive = true; // a consumer this tree does not have
            } else {
                for k in 0..5 {
                    let ok = matches!(r.step(2 + k), Out::Value { dump } if dump["b"] == json!(true));
                    if !ok {
                        let expects: Vec<(usize, Expect)> = vec![(2 + k, Expect::Dump { dump: json!({"b": true}) })];
                        o.failures.push(
                            Failure::new("element_error_dropped", format!("{shape}: {cons} over a stream whose element {k} is an error value must be that error; got {}\n  {}", brief(r.step(2 + k)), src.replace('\n', "\n  ")))
                                .key("consumer", *cons)
                                .key("shape", *shape)
                                .direct(make_direct(&job, &expects)),
                        );
                        break;
                    }
                }
            }
            if (si * 31 + ci) % 9 == 0 {
                o.sample = Some(json!({"shape": shape, "consumer": cons}));
            }
            outs.push(o);
            // 2. a call limit that trips inside the stream: every limit below the need is a violation
            let src2 = format!("fn f(x: int) -> int {{ x + 1 }}\nfn s() -> bool {{ !is_error({}) }}\n", cons.replace("{G}", &format!("({gen})")));
            let mut base = Job::new(src2.clone()).run("s");
            base.steps.push(Step::Counters);
            // user calls are only counted when a call limit is configured
            base.limits.calls = Some(1 << 40);
            let rb = ctx.exec(&base)?;
            let mut o = CaseOutcome {
                key: fnv(format!("streamlimit|{shape}|{cons}").as_bytes()),
                nontrivial: true,
                evals: 1,
                classes: vec![format!("stream_shape:{shape}"), "stream:call_limit".into()],
                ..Default::default()
            };
            let need = match rb.step(3) {
                Out::Counters { ud_calls, .. } => *ud_calls,
                _ => 0,
            };
            if end_failure(&rb).is_some() || !matches!(rb.step(2), Out::Value { .. }) || need < 2 {
                o.inconclusive = true;
                outs.push(o);
                continue;
            }
            for lim in 1..=need {
                let mut j = Job::new(src2.clone()).run("s");
                j.limits.calls = Some(lim);
                let r = ctx.exec(&j)?;
                o.evals += 1;
                let violated = r.steps.iter().any(|s| matches!(s, Out::Violation { .. }));
                if end_failure(&r).is_some() || !violated {
                    let expects: Vec<(usize, Expect)> = vec![(2, Expect::Violation { v: "MaximumUDCall".into() })];
                    o.failures.push(
                        Failure::new("violation_suppressed", format!("{shape}: {cons} needs {need} user calls; with a call limit of {lim} the host must receive MaximumUDCall, got {}\n  {}", r.steps.iter().map(brief).collect::<Vec<_>>().join(" / "), src2.replace('\n', "\n  ")))
                            .key("consumer", *cons)
                            .key("shape", *shape)
                            .direct(make_direct(&j, &expects)),
                    );
                    break;
                }
            }
            outs.push(o);
        }
    }
    // the templates are fixed: if (nearly) none of them compiles the harness is wrong, not the tree
    if outs.iter().filter(|o| !o.inconclusive).count() < outs.len() / 2 {
        return Err(HarnessError("stream templates of C06 do not compile".into()));
    }
    Ok(outs)
}

impl Property for C06 {
    fn id(&self) -> &'static str {
        "C06"
    }
    fn level(&self) -> &'static str {
        "fault_enumeration"
    }
    fn rule(&self) -> String {
        "lib_errors: a call of a standard-library function (table read from the interpreter; the documented short-circuit / error-handling functions excluded) with plain leaf arguments, where one or two argument positions receive a typed error value with a recognisable message; the result must be the leftmost injected error. core_errors: the same for user functions (positional, method sugar, optional parameters), lambdas, callable parameters and variables, array / tuple / struct / nested construction, operators, indexing, push, set, mapping set, set add/update, stack push, some. catchers: a limit-tripping expression (user calls, nesting, search, allocation) placed under 28 ways a program could try to observe or swallow it (if_error 2/3, is_error, get_error, short-circuit defaults, callbacks of map / filter / reduce / aggregate / sort / nth / take_while / skip_until / group / with_count / update_from_keys / successors / custom mapping hash, default parameters, nested handlers), with the limit swept over EVERY value up to beyond the need: each outcome must be the unlimited outcome or that limit's violation, and once a limit passes every larger one passes. Non-trivial = the injected error is not in the first position / two errors (errors); a real catcher that tripped at least once (catchers).".into()
    }
    fn assumptions(&self) -> Vec<String> {
        vec!["whether arguments to the right of an erroring argument are still evaluated is not pinned down by the book; no effects are placed there".into()]
    }
    fn enumerate(&self, ctx: &mut Ctx, _tier: Tier) -> Result<Vec<CaseOutcome>, HarnessError> {
        let l = lib(ctx)?;
        let mut outs = vec![];
        // every library function x every argument position x {ordinary, empty-container} other arguments
        let mut cases = vec![];
        for fi in usable_fns(l) {
            for pos in 0..l.fns[fi].params.len() {
                for empty in [false, true] {
                    let seed: Vec<u8> = (0..64u64).map(|i| (crate::tape::mix(fnv(l.fns[fi].name.as_bytes()), (pos as u64) << 8 | i | (empty as u64) << 32) >> 13) as u8).collect();
                    let mut t = Tape::new(&seed);
                    let mut c = gen_lib_error_case(&mut t, l, Some((fi, pos, empty)));
                    c.classes.push(format!("enumerated:{}", if empty { "empty_other_arguments" } else { "ordinary_other_arguments" }));
                    cases.push(c);
                }
            }
        }
        for chunk in cases.chunks(40) {
            outs.extend(run_val_batch_cfg(
                chunk.to_vec(),
                ctx,
                &BatchCfg { mismatch_kind: "error_not_propagated", cpu_s: 10, timeouts_inconclusive: true, panics_inconclusive: false },
            )?);
        }
        outs.extend(stream_cases(ctx)?);
        Ok(outs)
    }
    fn exhaustive_part(&self) -> Option<String> {
        Some("every library function (static overloads read from the interpreter) x every argument position x {ordinary, empty-container} other arguments; 21 stream consumers x every element position x 3 stream shapes".into())
    }
    fn families(&self, tier: Tier) -> Vec<Family> {
        let k = if tier == Tier::Quick { 1 } else { 20 };
        vec![
            Family { name: "lib_errors", batches: 120 * k, batch_size: 30, tape_len: 60 },
            Family { name: "core_errors", batches: 60 * k, batch_size: 30, tape_len: 12 },
            Family { name: "catchers", batches: 110 * k, batch_size: 1, tape_len: 12 },
        ]
    }
    fn run_batch(&self, family: &str, subs: &[Vec<u8>], ctx: &mut Ctx) -> Result<Vec<CaseOutcome>, HarnessError> {
        match family {
            "catchers" => {
                let mut outs = vec![];
                for s in subs {
                    let mut t = Tape::new(s);
                    outs.push(run_catcher_case(&mut t, ctx)?);
                }
                Ok(outs)
            }
            _ => {
                let l = lib(ctx)?;
                let cases: Vec<ValCase> = subs
                    .iter()
                    .map(|s| {
                        let mut t = Tape::new(s);
                        if family == "core_errors" {
                            gen_core_error_case(&mut t)
                        } else {
                            gen_lib_error_case(&mut t, l, None)
                        }
                    })
                    .collect();
                let _ = (float_pool, int_pool, str_pool);
                run_val_batch_cfg(
                    cases,
                    ctx,
                    &BatchCfg {
                        mismatch_kind: "error_not_propagated",
                        cpu_s: 10,
                        timeouts_inconclusive: true,
                        panics_inconclusive: false,
                    },
                )
            }
        }
    }
}
