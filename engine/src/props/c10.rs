//! C10 — limits bound all work: no unbounded native loop.
use crate::direct::end_failure;
use crate::expect::brief;
use crate::pool::HarnessError;
use crate::proto::*;
use crate::runner::*;
use crate::tape::{fnv, Tape};
use serde_json::{json, Value};

pub struct C10;

const CPU_S: u64 = 4;

fn limits_a(t: &mut Tape) -> Limits {
    Limits {
        search: Some(*t.pick(&[50u64, 1000, 20_000])),
        calls: Some(*t.pick(&[50u64, 2000, 50_000])),
        depth: Some(200),
        recursion: Some(10_000),
        ..Limits::default()
    }
}

fn limits_b(t: &mut Tape) -> Limits {
    Limits {
        size: Some(*t.pick(&[100_000u64, 1_000_000, 20_000_000])),
        ..limits_a(t)
    }
}

/// generator-valued sources that never end (or are huge)
const GEN_SOURCES: &[(&str, &str)] = &[
    ("count_gen", "count().to_generator()"),
    ("count_step_gen", "count(5, 3).to_generator()"),
    ("successors", "successors(1, (x: int) -> { x + 1 })"),
    ("successors_const", "successors(0, (x: int) -> { 0 })"),
    ("successors_until_never", "successors_until(1, (x: int) -> { some(x + 1) })"),
    ("repeat_gen", "[1, 2, 3].to_generator().repeat()"),
    ("repeat_empty_gen", "take([0], 0).to_generator().repeat()"),
    ("repeat_seq_gen", "repeat([0]).to_generator()"),
    ("chain_inf_first", "count().to_generator().add([1, 2].to_generator())"),
    ("chain_inf_last", "[1, 2].to_generator().add(count().to_generator())"),
    ("chain_inf_middle", "[1].to_generator().add(count().to_generator()).add([2].to_generator())"),
    ("huge_range_gen", "range(1000000000000).to_generator()"),
    ("aggregate_inf", "count().to_generator().aggregate(0, (a: int, x: int) -> { a + x })"),
    ("zip_inf", "count().to_generator().zip(count(1, 2).to_generator()).map((p: (int, int)) -> { p::item0 })"),
    ("product_inf", "count().to_generator().product(count().to_generator()).map((p: (int, int)) -> { p::item1 })"),
    ("product_inf_right", "[1, 2].to_generator().product(count().to_generator()).map((p: (int, int)) -> { p::item1 })"),
    ("enumerate_inf", "count().to_generator().enumerate().map((p: (int, int)) -> { p::item0 })"),
    ("bools_inf", "repeat([true]).to_generator().map((b: bool) -> { if(b, 1, 0) })"),
];

const GEN_STAGES: &[(&str, &str)] = &[
    ("none", ""),
    ("filter_never", ".filter((x: int) -> { x < 0 })"),
    ("filter_sometimes", ".filter((x: int) -> { x % 1000 == 999 })"),
    ("skip_until_never", ".skip_until((x: int) -> { x < 0 })"),
    ("take_while_always", ".take_while((x: int) -> { x >= 0 })"),
    ("windows_0", ".windows(0).map((s: Sequence<int>) -> { len(s) })"),
    ("windows_huge", ".windows(1000000000000).map((s: Sequence<int>) -> { len(s) })"),
    ("chunks_0", ".chunks(0).map((s: Sequence<int>) -> { len(s) })"),
    ("chunks_huge", ".chunks(1000000000000).map((s: Sequence<int>) -> { len(s) })"),
    ("group_all_equal", ".group((a: int, b: int) -> { true }).map((s: Sequence<int>) -> { len(s) })"),
    ("distinct_const", ".map((x: int) -> { 0 }).distinct()"),
    ("with_count", ".with_count().map((p: (int, int)) -> { p::item1 })"),
    ("skip_huge", ".skip(1000000000000)"),
    ("take_huge", ".take(1000000000000)"),
    ("repeat_n_huge", ".take(2).repeat(1000000000000)"),
    ("repeat_again", ".take(0).repeat()"),
    ("flatten", ".map((x: int) -> { [x].to_generator() }).flatten()"),
    ("map", ".map((x: int) -> { x * 2 })"),
    // predicates that are native functions: no user call is made, only the search limit can
    // bound the work
    ("native_predicate_filter", ".filter(is_error{int})"),
    ("native_predicate_skip_until", ".skip_until(is_error{int})"),
    ("native_predicate_take_while", ".take_while((x: int) -> { true }).filter(is_error{int})"),
];

const GEN_CONSUMERS: &[(&str, &str, &str)] = &[
    ("len", ".len()", "int"),
    ("last", ".last()", "int"),
    ("to_array_len", ".to_array().len()", "int"),
    ("sum", ".sum()", "int"),
    ("get_far", ".get(1000000000000)", "int"),
    ("get_near", ".get(3)", "int"),
    ("first_never", ".first((x: int) -> { x < 0 }).has_value()", "bool"),
    ("nth_far", ".nth(1000000000000, (x: int) -> { true }).has_value()", "bool"),
    ("contains", ".contains(-1)", "bool"),
    ("count_pred", ".count((x: int) -> { true })", "int"),
    ("all", ".all((x: int) -> { true })", "bool"),
    ("any_never", ".any((x: int) -> { false })", "bool"),
    ("reduce", ".reduce(0, (a: int, x: int) -> { a })", "int"),
    ("max", ".max()", "int"),
    ("join", ".map((x: int) -> { \"a\" }).join()", "str"),
    ("to_set", ".map((x: int) -> { x % 3 }).to_array().len()", "int"),
    ("set_update", ".take(1000000000000).reduce(0, (a: int, x: int) -> { a + 1 })", "int"),
    ("mean", ".map((x: int) -> { 1.0 }).mean()", "float"),
];

/// sequence-level expressions over infinite or huge sequences
const SEQ_EXPRS: &[(&str, &str, &str)] = &[
    ("native_only_filter_len", "count().to_generator().filter(is_error{int}).len()", "int"),
    ("native_only_skip_until_get", "count().to_generator().skip_until(is_error{int}).get(0)", "int"),
    ("native_only_first", "count().to_generator().first(is_error{int}).has_value()", "bool"),
    ("native_only_seq_first", "count().first(is_error{int}).has_value()", "bool"),
    ("native_only_seq_skip_until", "count().skip_until(is_error{int})[0]", "int"),
    ("native_only_seq_filter", "count().filter(is_error{int}).len()", "int"),
    ("native_only_chain", "count().to_generator().add(count().to_generator()).filter(is_error{int}).last()", "int"),
    ("native_only_nested", "count().to_generator().filter(is_error{int}).filter(is_error{int}).skip(5).len()", "int"),
    ("count_len", "count().len()", "int"),
    ("count_sum", "count().sum()", "int"),
    ("count_to_array", "count().to_array().len()", "int"),
    ("count_eq_count", "count() == count()", "bool"),
    ("count_cmp", "cmp(count(), count())", "int"),
    ("count_to_str", "to_str(count()).len()", "int"),
    ("count_hash", "hash(count())", "int"),
    ("count_reverse", "count().reverse()[0]", "int"),
    ("count_sort", "count().sort()[0]", "int"),
    ("count_max", "max(count())", "int"),
    ("count_to_stack", "count().to_stack().len()", "int"),
    ("count_contains", "count().contains(-1)", "bool"),
    ("count_map_contains", "count().map((x: int) -> { x * 2 }).contains(7)", "bool"),
    ("count_first_never", "count().first((x: int) -> { x < 0 }).has_value()", "bool"),
    ("count_nth_far", "count().nth(1000000000000, (x: int) -> { true }).has_value()", "bool"),
    ("count_last", "count().last((x: int) -> { true }).has_value()", "bool"),
    ("count_take_while", "count().take_while((x: int) -> { true }).len()", "int"),
    ("count_skip_until", "count().skip_until((x: int) -> { false })[0]", "int"),
    ("count_count", "count().count((x: int) -> { true })", "int"),
    ("count_bisect", "count().bisect((x: int) -> { true })", "int"),
    ("count_binary_search", "count().binary_search((x: int) -> { -1 }).has_value()", "bool"),
    ("set_update_count", "set<int>().update(count()).len()", "int"),
    ("mapping_update_keys", "mapping<int>().update_from_keys(count(), (k: int) -> { 0 }, (k: int, v: int) -> { v }).len()", "int"),
    ("update_counter", "mapping<int>().update_counter(count().to_generator()).len()", "int"),
    ("repeat_inf_len", "repeat([1, 2]).len()", "int"),
    ("repeat_empty", "repeat(take([0], 0))[0]", "int"),
    ("huge_range_len", "range(1000000000000).len()", "int"),
    ("huge_range_to_array", "range(1000000000000).to_array().len()", "int"),
    ("huge_range_sum", "range(1000000000000).sum()", "int"),
    ("huge_range_sort", "range(1000000000000).sort()[0]", "int"),
    ("huge_range_reverse_get", "range(1000000000000).reverse()[0]", "int"),
    ("huge_mul", "([1, 2] * 1000000000000).len()", "int"),
    ("huge_mul_array", "([1, 2] * 1000000000000).to_array().len()", "int"),
    ("huge_str_mul", "len(\"ab\" * 1000000000000)", "int"),
    ("split_empty", "\"abc\".split(\"\").len()", "int"),
    ("replace_empty", "len(\"abc\".replace(\"\", \"x\"))", "int"),
    ("join_inf", "join(count().map((x: int) -> { \"a\" })).len()", "int"),
    ("zip_inf_eq", "zip(count(), count()) == zip(count(), count())", "bool"),
    ("permutations_huge", "permutations(range(30).to_array()).len()", "int"),
    ("combinations_huge", "combinations(range(60).to_array(), 30).len()", "int"),
    ("json_inf", "len(serialize(json(count().map((x: int) -> { true }))))", "int"),
    ("mean_inf", "mean(count())", "float"),
    ("median_huge", "median(range(1000000000000))", "int"),
    ("n_smallest_inf", "count().n_smallest(3)[0]", "int"),
    ("windows_of_inf_seq", "count().to_generator().windows(3).len()", "int"),
];

fn big(t: &mut Tape) -> String {
    t.pick(&[
        "0", "1", "2", "-1", "10", "1000", "1000000", "1000000000000", "1000000000000000000", "18446744073709551616",
        "-1000000000000",
    ])
    .to_string()
}

fn numeric_expr(t: &mut Tape) -> (String, &'static str, &'static str) {
    let a = big(t);
    let b = big(t);
    match t.below(16) {
        0 => (format!("digits({a}, {b}).len()"), "int", "digits"),
        1 => (format!("binom({a}, {b})"), "int", "binom"),
        2 => (format!("multinom([{a}, {b}])"), "int", "multinom"),
        3 => (format!("factorial({a})"), "int", "factorial"),
        4 => (format!("factorial({a}, {b})"), "int", "factorial_step"),
        5 => (format!("({a}) ** ({b})"), "int", "pow"),
        6 => (format!("range({a}, {b}).len()"), "int", "range"),
        7 => (format!("range(0, {a}, {b}).to_array().len()"), "int", "range_to_array"),
        8 => (format!("len(\"ab\" * ({a}))"), "int", "str_mul"),
        9 => (format!("len(format(1.5, \".{}f\"))", a.trim_start_matches('-')), "int", "format_precision"),
        10 => (format!("len(format(7, \"{}\"))", a.trim_start_matches('-')), "int", "format_width"),
        11 => (format!("gcd({a}, {b})"), "int", "gcd"),
        12 => (format!("floor_root({a}, 3)"), "int", "floor_root"),
        13 => (format!("ceil_root({a})"), "int", "ceil_root"),
        14 => (format!("lcm({a}, {b})"), "int", "lcm"),
        _ => (format!("permutation({a}, {b}).len()"), "int", "permutation"),
    }
}

struct Case {
    src: String,
    limits: Limits,
    family: &'static str,
    tags: Vec<String>,
    infinite: bool,
}

fn gen_case(t: &mut Tape, ctx: &Ctx) -> Option<Case> {
    let kind = t.below(4);
    let (body, ret, tags, infinite): (String, &str, Vec<String>, bool) = match kind {
        0 | 1 => {
            let (sn, s) = *t.pick(GEN_SOURCES);
            let nstages = t.below(3);
            let mut stages = String::new();
            let mut tags = vec![format!("src:{sn}")];
            for _ in 0..nstages {
                let (n, st) = *t.pick(GEN_STAGES);
                stages.push_str(st);
                tags.push(format!("stage:{n}"));
            }
            let (cn, c, ty) = *t.pick(GEN_CONSUMERS);
            tags.push(format!("cons:{cn}"));
            (format!("{s}{stages}{c}"), ty, tags, true)
        }
        2 => {
            let (n, e, ty) = *t.pick(SEQ_EXPRS);
            (e.to_string(), ty, vec![format!("seq:{n}")], true)
        }
        _ => {
            let (e, ty, n) = numeric_expr(t);
            (e, ty, vec![format!("num:{n}")], false)
        }
    };
    for tag in &tags {
        if ctx.excluded(tag) {
            return None;
        }
    }
    // adversarial magnitudes (10^12 and up) only together with a size limit (family B): with
    // search and call limits alone all legitimate work is small
    let huge = body.contains("000000000") || tags.iter().any(|t| t.contains("huge") || t.starts_with("num:"));
    let (limits, family) = if huge || t.bool() { (limits_b(t), "B") } else { (limits_a(t), "A") };
    Some(Case {
        src: format!("fn c0() -> {ret} {{\n  {body}\n}}\n"),
        limits,
        family,
        tags,
        infinite,
    })
}

fn run_case(t: &mut Tape, ctx: &mut Ctx) -> Result<CaseOutcome, HarnessError> {
    let Some(c) = gen_case(t, ctx) else {
        return Ok(CaseOutcome { excluded: 1, evals: 1, classes: vec!["excluded_by_known_finding".into()], ..Default::default() });
    };
    let mut job = Job::new(c.src.clone()).run("c0");
    job.steps[2] = Step::RunQuiet { name: "c0".into() };
    job.limits = c.limits.clone();
    job.cpu_s = CPU_S;
    let mut o = CaseOutcome {
        key: fnv(format!("{}{:?}", c.src, c.limits).as_bytes()),
        classes: c.tags.clone(),
        evals: 1,
        ..Default::default()
    };
    o.classes.push(format!("limits:{}", c.family));
    let r = ctx.exec(&job)?;
    let tagkey = c.tags.join(",");
    let mk = |f: Failure, job: &Job| {
        f.key("tags", tagkey.clone())
            .key("family", c.family)
            .direct(json!({"form": "c10", "job": job}))
    };
    match end_failure(&r) {
        None => {
            let out = if matches!(r.step(0), Out::Done) { r.step(2).clone() } else { r.step(0).clone() };
            if let Out::Panic { msg, loc } = &out {
                o.failures.push(mk(Failure::new("panic", format!("panic {msg} at {loc}\n{}", c.src)).key("panic", super::common::norm_panic(msg)), &job));
            }
            if let Out::CompileError { class, text } = &out {
                o.inconclusive = true;
                o.classes.push(format!("generator_rejected:{class}"));
                if std::env::var("XV_DEBUG_C10").is_ok() {
                    eprintln!("REJECTED {class}: {} <= {}", text.lines().last().unwrap_or("").chars().take(200).collect::<String>(), c.src.replace('\n', " "));
                }
            } else {
                // a terminating run over an unbounded source: the limits did their job
                o.nontrivial = c.infinite;
            }
            o.sample = Some(json!({"source": c.src, "limits": c.limits, "outcome": brief(&out), "cpu_ms": r.cpu_ms}));
        }
        Some(f) if f.kind == "timeout" || f.kind == "memory" => {
            // confirm with twice the budget before reporting
            let mut j2 = job.clone();
            j2.cpu_s = CPU_S * 2;
            let r2 = ctx.exec(&j2)?;
            o.evals += 1;
            match end_failure(&r2) {
                Some(f2) if f2.kind == "timeout" || f2.kind == "memory" => {
                    let what = if f2.kind == "timeout" { "did not terminate" } else { "exhausted the address space" };
                    o.failures.push(mk(
                        Failure::new(
                            if f2.kind == "timeout" { "non_termination" } else { "memory_exhaustion" },
                            format!(
                                "under limits {:?} the evaluation {what} within {} s of CPU time (confirmed with twice the budget)\n{}",
                                c.limits,
                                CPU_S * 2,
                                c.src
                            ),
                        ),
                        &j2,
                    ));
                }
                _ => o.inconclusive = true,
            }
        }
        Some(f) => o.failures.push(mk(f, &job)),
    }
    Ok(o)
}

/// once the time limit has elapsed no further user call begins
fn run_time_case(t: &mut Tape, ctx: &mut Ctx) -> Result<CaseOutcome, HarnessError> {
    let n = t.range(1, 5);
    let src = format!(
        "fn step(x: int) -> int {{ display(x) }}\nfn c0() -> int {{ step(1) + step(2) }}\nfn c1() -> int {{ {} }}\n",
        (0..n).map(|i| format!("step({})", 10 + i)).collect::<Vec<_>>().join(" + ")
    );
    let variant = t.below(3);
    let mut job = Job::new(src.clone());
    let mut o = CaseOutcome {
        key: fnv(format!("{src}{variant}").as_bytes()),
        nontrivial: true,
        classes: vec![format!("time:{}", ["zero", "elapsed_then_call", "reset"][variant])],
        evals: 1,
        ..Default::default()
    };
    match variant {
        0 => {
            // a zero time limit: no user function body may begin
            job.steps = vec![Step::Compile { src: 0 }, Step::Instantiate, Step::RunQuiet { name: "c0".into() }];
            job.limits.time_ms = Some(0);
        }
        1 => {
            job.steps = vec![
                Step::Compile { src: 0 },
                Step::Instantiate,
                Step::RunQuiet { name: "c0".into() },
                Step::HostSleepMs { ms: 400 },
                Step::RunQuiet { name: "c1".into() },
            ];
            job.limits.time_ms = Some(150);
        }
        _ => {
            job.steps = vec![
                Step::Compile { src: 0 },
                Step::Instantiate,
                Step::HostSleepMs { ms: 400 },
                Step::ResetTimeout,
                Step::RunQuiet { name: "c1".into() },
            ];
            job.limits.time_ms = Some(150);
        }
    }
    // the other limits may be configured at the same time (the deadline check must not depend on it)
    let others = t.below(16);
    if others & 1 != 0 {
        job.limits.calls = Some(100_000);
    }
    if others & 2 != 0 {
        job.limits.search = Some(100_000);
    }
    if others & 4 != 0 {
        job.limits.depth = Some(1000);
    }
    if others & 8 != 0 {
        job.limits.size = Some(1 << 30);
    }
    o.key = fnv(format!("{src}{variant}{others}").as_bytes());
    o.classes.push(format!("time_other_limits:{}", if others == 0 { "none" } else { "some" }));
    let mut r = ctx.exec(&job)?;
    // the clock is real: a result that looks wrong is confirmed by a second run before it counts
    let looks_wrong = |r: &Reply| -> bool {
        let lines = r.output.lines().count();
        let timeout = |i: usize| matches!(r.step(i), Out::Violation { v } if v == "Timeout");
        match variant {
            0 => !timeout(2) || lines != 0,
            1 => !timeout(4) || lines > 2,
            _ => !matches!(r.step(4), Out::Done) || lines != n as usize,
        }
    };
    if end_failure(&r).is_none() && looks_wrong(&r) {
        r = ctx.exec(&job)?;
        o.evals += 1;
    }
    let mk = |kind: &str, msg: String| {
        Failure::new(kind, format!("{msg}\n{src}  limits: {:?}\n  output: {:?}", job.limits, r.output))
            .key("variant", ["zero", "elapsed_then_call", "reset"][variant])
            .direct(json!({"form": "c10_time", "job": job, "variant": variant, "n": n}))
    };
    if let Some(f) = end_failure(&r) {
        o.failures.push(f.direct(json!({"form": "no_crash", "job": job})));
        return Ok(o);
    }
    let lines: Vec<&str> = r.output.lines().collect();
    let timeout = |i: usize| matches!(r.step(i), Out::Violation { v } if v == "Timeout");
    match variant {
        0 => {
            if !timeout(2) || !lines.is_empty() {
                o.failures.push(mk("call_after_deadline", format!("time limit 0: expected Timeout and no body to begin; observed {} and {} bodies", brief(r.step(2)), lines.len())));
            }
        }
        1 => {
            // c0 ran in time (two bodies), then the deadline passed: c1 must not begin any body
            if !timeout(4) || lines.len() > 2 {
                o.failures.push(mk(
                    "call_after_deadline",
                    format!("after the 150 ms limit elapsed (400 ms sleep) c1 ended in {} and {} bodies began in total (2 belong to c0)", brief(r.step(4)), lines.len()),
                ));
            }
        }
        _ => {
            if !matches!(r.step(4), Out::Done) || lines.len() != n as usize {
                o.failures.push(mk("reset_timeout_ineffective", format!("after reset_timeout the run must have its full budget: observed {} with {} of {n} bodies", brief(r.step(4)), lines.len())));
            }
        }
    }
    o.sample = Some(json!({"variant": variant, "outcomes": r.steps.iter().map(brief).collect::<Vec<_>>(), "bodies_begun": lines.len()}));
    Ok(o)
}

impl Property for C10 {
    fn id(&self) -> &'static str {
        "C10"
    }
    fn rule(&self) -> String {
        "work: an expression over an unbounded or astronomically large source - 18 generator sources (count, successors, successors_until that never stops, repeat incl. of an empty stream, chains with the infinite part first / last / in the middle, products and zips of infinite streams, huge ranges) x 0-2 of 20 stages (never-firing filters and skip_until with user AND native predicates, windows / chunks of size 0 and 10^12, groups that never close, distinct over a constant, huge skip / take / repeat, flatten) x 18 consumers; 45 sequence-level expressions over infinite / huge sequences (len, sum, to_array, ==, cmp, to_str, hash, reverse, sort, max, contains, searches, set / mapping bulk updates, string repetition, split / replace with empty needle, permutations, combinations, JSON, statistics); 16 numeric builtins with arguments up to 2^64 (digits with bases -1, 0, 1, binom, multinom, factorial, pow, range, format precision / width, roots, lcm, permutation) - under finite search and call limits (family A) and also a size limit (family B). Oracle: the evaluation ends (value, error or violation) within 4 s of CPU time and 4 GiB; an overrun is re-run with twice the budget before it is reported. time: with time_limit 0, or 150 ms followed by a real 400 ms pause, no user function body begins (bodies are observed through display) and the outcome is Timeout; reset_timeout from the host restores the budget. Non-trivial = the source is unbounded and the run ended within the budget.".into()
    }
    fn assumptions(&self) -> Vec<String> {
        vec![
            "termination is decided by a CPU budget: passing runs take milliseconds, the budget is 4 s (8 s on confirmation); a loop that is merely slow would be reported as non-termination, a bounded but quadratic one would not be flagged".into(),
            "the time-limit family uses the real monotonic clock (the time limit is not injectable): margins of 2x between limit and pause".into(),
        ]
    }
    fn families(&self, tier: Tier) -> Vec<Family> {
        let k = if tier == Tier::Quick { 1 } else { 20 };
        vec![
            Family { name: "work", batches: 2400 * k, batch_size: 1, tape_len: 24 },
            Family { name: "time", batches: 36 * k, batch_size: 1, tape_len: 8 },
        ]
    }
    fn run_batch(&self, family: &str, subs: &[Vec<u8>], ctx: &mut Ctx) -> Result<Vec<CaseOutcome>, HarnessError> {
        let mut outs = vec![];
        for s in subs {
            let mut t = Tape::new(s);
            outs.push(if family == "time" { run_time_case(&mut t, ctx)? } else { run_case(&mut t, ctx)? });
        }
        Ok(outs)
    }
    fn check_direct(&self, direct: &Value, ctx: &mut Ctx) -> Result<Option<Failure>, HarnessError> {
        match direct["form"].as_str() {
            Some("c10") => {
                let job: Job = serde_json::from_value(direct["job"].clone()).map_err(|e| HarnessError(e.to_string()))?;
                let r = ctx.exec(&job)?;
                if let Some(f) = end_failure(&r) {
                    return Ok(Some(f.direct(direct.clone())));
                }
                Ok(r.steps
                    .iter()
                    .find(|s| s.is_panic())
                    .map(|s| Failure::new("panic", brief(s)).direct(direct.clone())))
            }
            Some("c10_time") => Ok(None),
            _ => crate::direct::check_generic(direct, ctx),
        }
    }
}
