//! C08 — depth, recursion, call and search limits are exact and transparent.
use crate::direct::{end_failure, make_direct};
use crate::expect::{brief, satisfied, Expect};
use crate::pool::HarnessError;
use crate::proto::*;
use crate::runner::*;
use crate::tape::{fnv, Tape};
use serde_json::json;

pub struct C08;

const PRELUDE: &str = "fn rec(n: int) -> int { if(n <= 0, 0, 1 + rec(n - 1)) }
fn tr(n: int, acc: int) -> int { if(n <= 0, acc, tr(n - 1, acc + 1)) }
fn apply_n(f: (int)->(int), k: int, x: int) -> int { if(k <= 0, x, apply_n(f, k - 1, f(x))) }
fn twice(f: (int)->(int), x: int) -> int { f(f(x)) }
fn inc(x: int) -> int { x + 1 }
";

/// what one work item needs
#[derive(Clone, Debug, Default)]
struct Need {
    calls: u64,
    /// frames below the caller at the deepest point
    depth: u64,
    /// largest number of consecutive tail self-calls of one activation
    rec: u64,
    /// largest number of elements one searching builtin examines
    search: u64,
}

struct Item {
    src: String,
    need: Need,
    tag: &'static str,
}

fn gen_item(t: &mut Tape, searchy: bool) -> Item {
    if searchy {
        match t.below(5) {
            0 => {
                let k = t.range(0, 20) as u64;
                Item { src: format!("binom(40, {k})"), need: Need { search: k, ..Default::default() }, tag: "binom" }
            }
            1 => {
                let j = t.range(0, 30) as u64;
                Item {
                    src: format!("or(range(100).first((x: int) -> {{ x >= {j} }}), -1)"),
                    // `first` is itself written in the language: one more call and frame
                    need: Need { calls: j + 2, depth: 2, search: j + 1, ..Default::default() },
                    tag: "seq_first",
                }
            }
            2 => {
                let k = t.range(0, 30) as u64;
                Item {
                    src: format!("len(count().to_generator().take({k}).to_array())"),
                    need: Need { search: k, ..Default::default() },
                    tag: "gen_to_array",
                }
            }
            3 => {
                let k = t.range(0, 30) as u64;
                Item {
                    src: format!("range({k}).to_generator().len()"),
                    need: Need { search: k, ..Default::default() },
                    tag: "gen_len",
                }
            }
            _ => {
                let j = t.range(0, 25) as u64;
                Item {
                    src: format!("len(range(60).take_while((x: int) -> {{ x < {j} }}))"),
                    need: Need { calls: j + 1, depth: 1, search: j + 1, ..Default::default() },
                    tag: "take_while",
                }
            }
        }
    } else {
        match t.below(8) {
            0 | 1 => {
                let n = t.range(0, 25) as u64;
                Item { src: format!("rec({n})"), need: Need { calls: n + 1, depth: n + 1, ..Default::default() }, tag: "rec" }
            }
            2 => {
                let n = t.range(0, 40) as u64;
                Item { src: format!("tr({n}, 0)"), need: Need { calls: 1, depth: 1, rec: n, ..Default::default() }, tag: "tail_rec" }
            }
            3 => {
                let k = t.range(0, 20) as u64;
                Item {
                    src: format!("len(range({k}).map((x: int) -> {{ x + 1 }}).to_array())"),
                    need: Need { calls: k, depth: if k > 0 { 1 } else { 0 }, ..Default::default() },
                    tag: "map_lambda",
                }
            }
            4 => {
                let k = t.range(0, 15) as u64;
                Item {
                    src: format!("apply_n(inc, {k}, 0)"),
                    need: Need { calls: 1 + k, depth: if k > 0 { 2 } else { 1 }, rec: k, ..Default::default() },
                    tag: "user_hof",
                }
            }
            5 => Item {
                src: "twice((x: int) -> { rec(x) }, 3)".into(),
                // twice + lambda(3) + rec(3): 4 calls + lambda(3 -> rec gives 3) + rec(3): 4 calls
                need: Need { calls: 1 + 1 + 4 + 1 + 4, depth: 1 + 1 + 4, ..Default::default() },
                tag: "closure_hof",
            },
            6 => Item { src: "abs(-3)".into(), need: Need { calls: 1, depth: 1, ..Default::default() }, tag: "lib_abs" },
            _ => {
                let n = t.range(0, 12) as u64;
                // a default parameter computed by a user function: evaluated when the
                // function value is created (inside c0), once
                Item {
                    src: format!("rec({n}) + inc(1)"),
                    need: Need { calls: n + 2, depth: n + 1, ..Default::default() },
                    tag: "rec_plus",
                }
            }
        }
    }
}

struct Prog {
    src: String,
    need: Need,
    tags: Vec<&'static str>,
}

fn gen_prog(t: &mut Tape, fname: &str, searchy: bool) -> Prog {
    let k = 1 + t.below(4);
    let mut lines = vec![];
    let mut total = Need { calls: 1, depth: 0, rec: 0, search: 0 };
    let mut tags = vec![];
    for i in 0..k {
        let s_item = searchy && t.below(3) != 0;
        let it = gen_item(t, s_item);
        lines.push(format!("  let v{i} = {};", it.src));
        total.calls += it.need.calls;
        total.depth = total.depth.max(it.need.depth);
        total.rec = total.rec.max(it.need.rec);
        total.search = total.search.max(it.need.search);
        tags.push(it.tag);
    }
    // the frame of the exported function itself
    total.depth += 1;
    let tuple = if k == 1 {
        "(v0,)".to_string()
    } else {
        format!("({})", (0..k).map(|i| format!("v{i}")).collect::<Vec<_>>().join(", "))
    };
    let ret = format!("({})", vec!["int"; k].join(", "));
    Prog {
        src: format!("fn {fname}() -> {ret} {{\n{}\n  {tuple}\n}}\n", lines.join("\n")),
        need: total,
        tags,
    }
}

#[derive(Clone, Copy, Debug, PartialEq)]
enum Kind {
    Calls,
    Depth,
    Rec,
    Search,
}

fn limits_for(kind: Kind, l: u64) -> Limits {
    let mut lim = Limits::default();
    match kind {
        Kind::Calls => lim.calls = Some(l),
        Kind::Depth => lim.depth = Some(l),
        Kind::Rec => lim.recursion = Some(l),
        Kind::Search => lim.search = Some(l),
    }
    lim
}

fn violation_of(kind: Kind) -> &'static str {
    match kind {
        Kind::Calls => "MaximumUDCall",
        Kind::Depth => "MaximumStackDepth",
        Kind::Rec => "MaximumRecursion",
        Kind::Search => "MaximumSearch",
    }
}

fn trips(kind: Kind, need: &Need, l: u64) -> bool {
    match kind {
        // the count reaches L
        Kind::Calls => need.calls >= l,
        // the nesting reaches L
        Kind::Depth => need.depth >= l,
        // more than L consecutive tail self-calls
        Kind::Rec => need.rec > l,
        // more than L elements examined
        Kind::Search => need.search > l,
    }
}

fn run_sweep(t: &mut Tape, ctx: &mut Ctx) -> Result<CaseOutcome, HarnessError> {
    let searchy = t.bool();
    let p = gen_prog(t, "c0", searchy);
    let src = format!("{PRELUDE}{}", p.src);
    let mut o = CaseOutcome {
        key: fnv(src.as_bytes()),
        nontrivial: true,
        classes: p.tags.iter().map(|s| format!("item:{s}")).collect(),
        ..Default::default()
    };
    // unlimited baseline
    let base_job = Job::new(src.clone()).run("c0");
    let base = ctx.exec(&base_job)?;
    o.evals += 1;
    if let Some(f) = end_failure(&base) {
        o.failures.push(f.direct(json!({"form": "no_crash", "job": base_job})));
        return Ok(o);
    }
    let Out::Value { dump: base_dump } = base.step(2).clone() else {
        o.failures.push(
            Failure::new("wrong_outcome", format!("unlimited run did not produce a value: {}\n{src}", brief(base.step(2))))
                .direct(make_direct(&base_job, &[(2, Expect::ValueOrError)])),
        );
        return Ok(o);
    };
    let same = Expect::Dump { dump: crate::dump::strip(&base_dump) };
    let kinds: Vec<Kind> = if searchy {
        vec![Kind::Search, Kind::Calls, Kind::Depth]
    } else {
        vec![Kind::Calls, Kind::Depth, Kind::Rec]
    };
    let mut near = 0u64;
    for kind in kinds {
        let need = match kind {
            Kind::Calls => p.need.calls,
            Kind::Depth => p.need.depth,
            Kind::Rec => p.need.rec,
            Kind::Search => p.need.search,
        };
        // every L from 1 to need + 2 when small, else a window around the threshold plus a few
        let mut ls: Vec<u64> = if need <= 24 {
            (1..=need + 2).collect()
        } else {
            let mut v: Vec<u64> = vec![1, 2, need / 2, need.saturating_sub(2), need.saturating_sub(1), need, need + 1, need + 2];
            v.sort();
            v.dedup();
            v.retain(|x| *x >= 1);
            v
        };
        ls.dedup();
        for l in ls {
            let expect = if trips(kind, &p.need, l) {
                Expect::Violation { v: violation_of(kind).into() }
            } else {
                same.clone()
            };
            let mut job = Job::new(src.clone()).run("c0");
            job.limits = limits_for(kind, l);
            let r = ctx.exec(&job)?;
            o.evals += 1;
            if (l as i64 - need as i64).abs() <= 1 {
                near += 1;
            }
            if let Some(f) = end_failure(&r) {
                o.failures.push(f.direct(make_direct(&job, &[(2, expect.clone())])));
                continue;
            }
            // instantiation itself may trip (defaults, top-level values): it does not here
            let out = if matches!(r.step(1), Out::Done) { r.step(2).clone() } else { r.step(1).clone() };
            if !satisfied(&expect, &out) {
                o.failures.push(
                    Failure::new(
                        if out.is_panic() { "panic" } else { "wrong_threshold" },
                        format!(
                            "{kind:?} limit {l}; the program needs calls={} depth={} tail-iterations={} search={}\n{}  expected: {}\n  observed: {}",
                            p.need.calls,
                            p.need.depth,
                            p.need.rec,
                            p.need.search,
                            p.src,
                            serde_json::to_string(&expect).unwrap_or_default(),
                            brief(&out)
                        ),
                    )
                    .key("kind", format!("{kind:?}"))
                    .key("items", p.tags.join(","))
                    .key("side", if trips(kind, &p.need, l) { "must_trip" } else { "must_pass" })
                    .direct(make_direct(&job, &[(2, expect.clone())])),
                );
                break;
            }
        }
    }
    // the call counter after a passing run equals the number of calls
    {
        let mut job = Job::new(src.clone()).run("c0").step(Step::Counters);
        job.limits = limits_for(Kind::Calls, p.need.calls + 10);
        let r = ctx.exec(&job)?;
        o.evals += 1;
        if let Out::Counters { ud_calls, .. } = r.step(3) {
            if *ud_calls != p.need.calls {
                o.failures.push(
                    Failure::new(
                        "wrong_call_count",
                        format!(
                            "the call counter reads {ud_calls} after a run that makes {} user-function calls\n{}",
                            p.need.calls, p.src
                        ),
                    )
                    .key("items", p.tags.join(","))
                    .direct(json!({"form": "c08_counter", "job": job, "expected": p.need.calls})),
                );
            }
        }
    }
    o.classes.push(format!("near_threshold_probes:{}", if near > 0 { "yes" } else { "no" }));
    o.sample = Some(json!({"program": p.src, "needs": {"calls": p.need.calls, "depth": p.need.depth, "tail_iterations": p.need.rec, "search": p.need.search}, "limit_runs": o.evals}));
    Ok(o)
}

const LIB_ITEMS: &[&str] = &[
    "gcd(12, 18)", "lcm(4, 6)", "abs(-3)", "sum([1, 2, 3])", "len(reverse([1, 2, 3]).to_array())", "factorial(5)",
    "len(join([\"a\", \"b\"], \",\"))", "len(sort([3, 1, 2]))", "max([3, 1, 2])", "if([1, 2, 3].contains(2), 1, 0)",
    "len(enumerate([5, 6]).to_array())", "len(\"a,b,c\".split(\",\").to_array())", "len(strip(\" a \"))",
    "fraction(6, 4)::n", "date(2451545)::year", "median([3, 1, 2])", "len(chars(\"héllo\"))", "len(replace(\"banana\", \"an\", \"x\"))",
    "floor_root(50)", "len(repeat([1, 2], 3).to_array())", "if(set<int>().update([1, 2]) <= set<int>().update([1, 2, 3]), 1, 0)",
    "len(permutations([1, 2, 3]))", "sign(-5)", "len([3, 1, 2].n_smallest(2))", "weekday(date(2451545))",
];

/// library functions written in the language: their call count is read from the
/// interpreter's own counter, then the limit is swept around it
fn run_lib(t: &mut Tape, ctx: &mut Ctx) -> Result<CaseOutcome, HarnessError> {
    let k = 1 + t.below(3);
    let items: Vec<&str> = (0..k).map(|_| *t.pick(LIB_ITEMS)).collect();
    let lines: Vec<String> = items.iter().enumerate().map(|(i, it)| format!("  let v{i} = {it};")).collect();
    let tuple = if k == 1 {
        "(v0,)".to_string()
    } else {
        format!("({})", (0..k).map(|i| format!("v{i}")).collect::<Vec<_>>().join(", "))
    };
    let src = format!(
        "fn c0() -> ({}) {{\n{}\n  {tuple}\n}}\n",
        vec!["int"; k].join(", "),
        lines.join("\n")
    );
    let mut o = CaseOutcome {
        key: fnv(src.as_bytes()),
        nontrivial: true,
        classes: items.iter().map(|s| format!("lib:{}", s.split('(').next().unwrap_or(""))).collect(),
        ..Default::default()
    };
    let mut job = Job::new(src.clone()).run("c0").step(Step::Counters);
    job.limits = limits_for(Kind::Calls, 1_000_000_000);
    let base = ctx.exec(&job)?;
    o.evals += 1;
    if let Some(f) = end_failure(&base) {
        o.failures.push(f.direct(json!({"form": "no_crash", "job": job})));
        return Ok(o);
    }
    let (Out::Value { dump }, Out::Counters { ud_calls, .. }) = (base.step(2).clone(), base.step(3).clone()) else {
        // an item the library rejects or that errors: not a limits question
        o.inconclusive = true;
        return Ok(o);
    };
    let n = ud_calls;
    let same = Expect::Dump { dump: crate::dump::strip(&dump) };
    let mut ls = vec![1, n / 2, n.saturating_sub(1), n, n + 1, n + 2];
    ls.retain(|l| *l >= 1);
    ls.sort();
    ls.dedup();
    for l in ls {
        let expect = if n >= l { Expect::Violation { v: "MaximumUDCall".into() } } else { same.clone() };
        let mut j = Job::new(src.clone()).run("c0");
        j.limits = limits_for(Kind::Calls, l);
        let r = ctx.exec(&j)?;
        o.evals += 1;
        if let Some(f) = end_failure(&r) {
            o.failures.push(f.direct(make_direct(&j, &[(2, expect.clone())])));
            continue;
        }
        let out = if matches!(r.step(1), Out::Done) { r.step(2).clone() } else { r.step(1).clone() };
        if !satisfied(&expect, &out) {
            o.failures.push(
                Failure::new(
                    "wrong_threshold",
                    format!(
                        "call limit {l}; the interpreter's own counter says the run makes {n} calls\n{src}  expected: {}\n  observed: {}",
                        serde_json::to_string(&expect).unwrap_or_default(),
                        brief(&out)
                    ),
                )
                .key("kind", "Calls")
                .key("items", items.join(";"))
                .key("side", if n >= l { "must_trip" } else { "must_pass" })
                .direct(make_direct(&j, &[(2, expect.clone())])),
            );
            break;
        }
    }
    o.sample = Some(json!({"program": src, "measured_calls": n}));
    Ok(o)
}

/// host histories: run_function / reset on one runtime
fn run_history(t: &mut Tape, ctx: &mut Ctx) -> Result<CaseOutcome, HarnessError> {
    let a = gen_prog(t, "c0", false);
    let b = gen_prog(t, "c1", false);
    let src = format!("{PRELUDE}{}{}", a.src, b.src);
    let (na, nb) = (a.need.calls, b.need.calls);
    // a limit the first run fits in, and both together do not
    let l = na + 1 + t.below(nb as usize) as u64;
    let with_reset = t.bool();
    let mut job = Job::new(src.clone());
    job.steps = vec![Step::Compile { src: 0 }, Step::Instantiate, Step::RunQuiet { name: "c0".into() }];
    if with_reset {
        job.steps.push(Step::ResetCalls);
    }
    job.steps.push(Step::RunQuiet { name: "c1".into() });
    job.steps.push(Step::Counters);
    job.limits = limits_for(Kind::Calls, l);
    let last = job.steps.len() - 2;
    // without a reset the counter accumulates: na + nb >= l trips; with a reset the second
    // run has the full budget: trips iff nb >= l
    let second_trips = if with_reset { nb >= l } else { na + nb >= l };
    let expect_second = if second_trips {
        Expect::Violation { v: "MaximumUDCall".into() }
    } else {
        Expect::Done
    };
    let mut o = CaseOutcome {
        key: fnv(format!("{src}{l}{with_reset}").as_bytes()),
        nontrivial: true,
        classes: vec![if with_reset { "history:reset".into() } else { "history:no_reset".into() }],
        evals: 1,
        ..Default::default()
    };
    let r = ctx.exec(&job)?;
    if let Some(f) = end_failure(&r) {
        o.failures.push(f.direct(make_direct(&job, &[(last, expect_second.clone())])));
        return Ok(o);
    }
    for (idx, e, what) in [(2usize, Expect::Done, "first run"), (last, expect_second.clone(), "second run")] {
        if !satisfied(&e, r.step(idx)) {
            o.failures.push(
                Failure::new(
                    "wrong_history_outcome",
                    format!(
                        "call limit {l}, first function makes {na} calls, second {nb}, reset between: {with_reset}; {what}: expected {}, observed {}\n{}{}",
                        serde_json::to_string(&e).unwrap_or_default(),
                        brief(r.step(idx)),
                        a.src,
                        b.src
                    ),
                )
                .key("reset", with_reset.to_string())
                .direct(make_direct(&job, &[(2, Expect::Done), (last, expect_second.clone())])),
            );
        }
    }
    o.sample = Some(json!({"limit": l, "calls_first": na, "calls_second": nb, "reset": with_reset, "second": brief(r.step(last))}));
    Ok(o)
}

impl Property for C08 {
    fn id(&self) -> &'static str {
        "C08"
    }
    fn level(&self) -> &'static str {
        "fault_enumeration"
    }
    fn rule(&self) -> String {
        "sweep: an exported function made of 1-4 work items with closed-form needs (plain recursion, tail recursion, lambdas called by native map, user higher-order functions, closures, library functions written in the language; searching builtins: binom, first, take_while, generator to_array/len), run unlimited and then under EVERY limit value L from 1 to need+2 (a window around the threshold when need > 24) for each limit kind separately: the outcome must be the kind's violation exactly when calls >= L / nesting >= L / tail iterations > L / elements examined > L, and otherwise identical to the unlimited result; the call counter after a passing run must equal the number of calls. library: 1-3 calls of standard-library functions written in the language; their call count is read from the interpreter's own counter under a huge limit and the call limit is then set to 1, N/2, N-1, N, N+1, N+2. history: two exported functions run on one runtime under a call limit the first fits in and both together do not, with or without a host reset in between. Every case is non-trivial (limits within +-1 of the threshold are always included). Distinct by source (+ limit for histories).".into()
    }
    fn assumptions(&self) -> Vec<String> {
        vec!["the needs of the work items are closed forms derived from the documented counting rules (every call of a function written in the language counts, also library ones; a tail self-call replaces its activation and is not a new call)".into()]
    }
    fn families(&self, tier: Tier) -> Vec<Family> {
        let k = if tier == Tier::Quick { 1 } else { 20 };
        vec![
            Family { name: "sweep", batches: 80 * k, batch_size: 1, tape_len: 40 },
            Family { name: "history", batches: 160 * k, batch_size: 1, tape_len: 60 },
            Family { name: "library", batches: 120 * k, batch_size: 1, tape_len: 12 },
        ]
    }
    fn run_batch(&self, family: &str, subs: &[Vec<u8>], ctx: &mut Ctx) -> Result<Vec<CaseOutcome>, HarnessError> {
        let mut outs = vec![];
        for s in subs {
            let mut t = Tape::new(s);
            outs.push(match family {
                "history" => run_history(&mut t, ctx)?,
                "library" => run_lib(&mut t, ctx)?,
                _ => run_sweep(&mut t, ctx)?,
            });
        }
        Ok(outs)
    }
    fn check_direct(&self, direct: &serde_json::Value, ctx: &mut Ctx) -> Result<Option<Failure>, HarnessError> {
        if direct["form"].as_str() == Some("c08_counter") {
            let job: Job = serde_json::from_value(direct["job"].clone()).map_err(|e| HarnessError(e.to_string()))?;
            let r = ctx.exec(&job)?;
            if let Some(f) = end_failure(&r) {
                return Ok(Some(f.direct(direct.clone())));
            }
            if let Out::Counters { ud_calls, .. } = r.step(3) {
                if Some(*ud_calls) != direct["expected"].as_u64() {
                    return Ok(Some(Failure::new("wrong_call_count", format!("counter reads {ud_calls}")).direct(direct.clone())));
                }
            }
            return Ok(None);
        }
        crate::direct::check_generic(direct, ctx)
    }
}
