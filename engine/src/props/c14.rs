//! C14 — integers are exact at every magnitude.
use super::common::*;
use crate::dump::*;
use crate::expect::Expect;
use crate::pool::HarnessError;
use crate::runner::*;
use crate::tape::Tape;
use num_bigint::{BigInt, Sign};
use num_integer::Integer;
use num_traits::{One, Signed, ToPrimitive, Zero};
use serde_json::Value;

pub struct C14;

fn edge_pool() -> Vec<BigInt> {
    let mut v: Vec<BigInt> = vec![];
    for s in [0i64, 1, 2, 3, 7, 10, 60, 255, 1000] {
        v.push(BigInt::from(s));
    }
    for p in [31u32, 32, 53, 62, 63, 64, 65, 126, 127, 128, 200] {
        let b = pow2(p);
        v.push(b.clone());
        v.push(&b - 1);
        v.push(&b + 1);
    }
    let neg: Vec<BigInt> = v.iter().map(|x| -x).collect();
    v.extend(neg);
    v
}

/// operand: an edge value, a small value, or a random value of 1–400 bits
pub fn gen_int(t: &mut Tape) -> BigInt {
    match t.below(4) {
        0 => {
            let pool = edge_pool();
            t.pick(&pool).clone()
        }
        1 => BigInt::from(t.range(-20, 20)),
        2 => {
            // around the 64-bit boundary
            let base = pow2(*t.pick(&[63u32, 64, 31, 127]));
            let off = BigInt::from(t.range(-3, 3));
            let v = base + off;
            if t.bool() {
                -v
            } else {
                v
            }
        }
        _ => {
            let bits = t.range(1, 400) as usize;
            let nbytes = (bits + 7) / 8;
            let mut bytes: Vec<u8> = (0..nbytes).map(|_| t.byte()).collect();
            let extra = nbytes * 8 - bits;
            if let Some(last) = bytes.last_mut() {
                *last &= 0xffu8 >> extra;
            }
            let mag = BigInt::from_bytes_le(Sign::Plus, &bytes);
            if t.bool() {
                -mag
            } else {
                mag
            }
        }
    }
}

fn big(v: &BigInt) -> bool {
    v.abs() >= pow2(63)
}

fn class_of(v: &BigInt) -> &'static str {
    let a = v.abs();
    if a.is_zero() {
        "zero"
    } else if a < pow2(31) {
        "small"
    } else if a < pow2(63) {
        "word"
    } else if a <= pow2(64) {
        "boundary64"
    } else {
        "long"
    }
}

fn sign_class(v: &BigInt) -> &'static str {
    if v.is_negative() {
        "neg"
    } else if v.is_zero() {
        "zero"
    } else {
        "pos"
    }
}

/// correctly rounded double of the exact quotient a/b (round to nearest, ties to even);
/// None if not finite
fn exact_div(a: &BigInt, b: &BigInt) -> Option<f64> {
    if a.is_zero() {
        return Some(0.0);
    }
    let neg = a.is_negative() != b.is_negative();
    let (mut n, d) = (a.abs(), b.abs());
    // scale so that the quotient has at least 64 significant bits
    let mut exp: i64 = 0;
    let nb = n.bits() as i64;
    let db = d.bits() as i64;
    let shift = 66 - (nb - db);
    if shift > 0 {
        n <<= shift as usize;
        exp -= shift;
    }
    let (q, r) = n.div_rem(&d);
    // q has >= 65 bits; fold the remainder into a sticky bit
    let mut q = q << 1usize;
    exp -= 1;
    if !r.is_zero() {
        q |= BigInt::one();
    }
    // round q * 2^exp to a double
    let qb = q.bits() as i64;
    let drop = qb - 53;
    let (mant, e2) = if drop > 0 {
        let half = BigInt::one() << (drop - 1) as usize;
        let mask = (BigInt::one() << drop as usize) - 1;
        let rem = &q & &mask;
        let mut m = &q >> drop as usize;
        if rem > half || (rem == half && m.is_odd()) {
            m += 1;
        }
        (m, exp + drop)
    } else {
        (q, exp)
    };
    let m = mant.to_u64()? as f64; // <= 2^53, exact
    let f = m * 2f64.powi(0); // placeholder to keep clippy quiet
    let _ = f;
    // ldexp by repeated scaling (exact while normal)
    let mut res = m;
    let mut e = e2;
    while e > 0 {
        let step = e.min(1000);
        res *= 2f64.powi(step as i32);
        e -= step;
        if !res.is_finite() {
            return None;
        }
    }
    while e < 0 {
        let step = (-e).min(1000);
        res /= 2f64.powi(step as i32);
        e += step;
    }
    if !res.is_finite() {
        return None;
    }
    Some(if neg { -res } else { res })
}

fn exact_to_f64(a: &BigInt) -> Option<f64> {
    exact_div(a, &BigInt::one())
}

fn floor_root(a: &BigInt, r: u32) -> BigInt {
    a.nth_root(r)
}

struct Op {
    name: &'static str,
    arity: usize,
    /// infix / prefix spelling, if the book documents one
    sugar: Option<&'static str>,
}

const OPS: &[Op] = &[
    Op { name: "add", arity: 2, sugar: Some("+") },
    Op { name: "sub", arity: 2, sugar: Some("-") },
    Op { name: "mul", arity: 2, sugar: Some("*") },
    Op { name: "mod", arity: 2, sugar: Some("%") },
    Op { name: "div", arity: 2, sugar: Some("/") },
    Op { name: "div_floor", arity: 2, sugar: None },
    Op { name: "div_ceil", arity: 2, sugar: None },
    Op { name: "pow", arity: 2, sugar: Some("**") },
    Op { name: "bit_and", arity: 2, sugar: Some("&") },
    Op { name: "bit_or", arity: 2, sugar: Some("|") },
    Op { name: "bit_xor", arity: 2, sugar: Some("^") },
    Op { name: "eq", arity: 2, sugar: Some("==") },
    Op { name: "ne", arity: 2, sugar: Some("!=") },
    Op { name: "lt", arity: 2, sugar: Some("<") },
    Op { name: "le", arity: 2, sugar: Some("<=") },
    Op { name: "gt", arity: 2, sugar: Some(">") },
    Op { name: "ge", arity: 2, sugar: Some(">=") },
    Op { name: "cmp", arity: 2, sugar: None },
    Op { name: "gcd", arity: 2, sugar: None },
    Op { name: "lcm", arity: 2, sugar: None },
    Op { name: "binom", arity: 2, sugar: None },
    Op { name: "neg", arity: 1, sugar: Some("-") },
    Op { name: "abs", arity: 1, sugar: None },
    Op { name: "sign", arity: 1, sugar: None },
    Op { name: "to_str", arity: 1, sugar: None },
    Op { name: "to_float", arity: 1, sugar: None },
    Op { name: "hash", arity: 1, sugar: None },
    Op { name: "factorial", arity: 1, sugar: None },
    Op { name: "factorial2", arity: 2, sugar: None },
    Op { name: "digits", arity: 2, sugar: None },
    Op { name: "digits10", arity: 1, sugar: None },
    Op { name: "multinom", arity: 0, sugar: None },
    Op { name: "format_radix", arity: 1, sugar: None },
    Op { name: "to_int_radix", arity: 1, sugar: None },
    Op { name: "floor_root", arity: 2, sugar: None },
    Op { name: "ceil_root", arity: 2, sugar: None },
    Op { name: "min", arity: 2, sugar: None },
    Op { name: "max", arity: 2, sugar: None },
];

fn render_call(name: &str, sugar: Option<&str>, args: &[String], t: &mut Tape) -> String {
    let style = t.below(3);
    match (style, sugar, args.len()) {
        (1, Some(s), 2) => format!("({} {} {})", args[0], s, args[1]),
        (1, Some(s), 1) => format!("({}({}))", s, args[0]),
        (2, _, n) if n >= 1 => format!("({}).{}({})", args[0], name, args[1..].join(", ")),
        _ => format!("{}({})", name, args.join(", ")),
    }
}

fn gen_op_case(t: &mut Tape, ctx: &Ctx) -> ValCase {
    let op = t.pick(OPS);
    let mut a = gen_int(t);
    let mut b = gen_int(t);
    let mut excluded = 0;
    let mut underspecified = false;
    let ret_type;
    let expect: Expect;
    let body: String;
    let mut opclass = String::new();
    let err = Expect::Error { msg: None };
    let val = |d: Value| Expect::Dump { dump: d };
    match op.name {
        "add" | "sub" | "mul" | "bit_and" | "bit_or" | "bit_xor" | "min" | "max" => {
            let r = match op.name {
                "add" => &a + &b,
                "sub" => &a - &b,
                "mul" => &a * &b,
                "bit_and" => &a & &b,
                "bit_or" => &a | &b,
                "bit_xor" => &a ^ &b,
                "min" => (&a).min(&b).clone(),
                _ => (&a).max(&b).clone(),
            };
            ret_type = "int";
            expect = val(d_int(&r));
            let args = [int_src(&a, t), int_src(&b, t)];
            body = render_call(op.name, op.sugar, &args, t);
        }
        "mod" | "div_floor" | "div_ceil" | "div" => {
            if t.chance(16) {
                b = BigInt::zero();
            }
            ret_type = if op.name == "div" { "float" } else { "int" };
            expect = if b.is_zero() {
                err.clone()
            } else {
                match op.name {
                    "mod" => val(d_int(&a.mod_floor(&b))),
                    "div_floor" => val(d_int(&a.div_floor(&b))),
                    "div_ceil" => val(d_int(&(-((-&a).div_floor(&b))))),
                    _ => match exact_div(&a, &b) {
                        // 2 ulps: the 64-bit fast path divides two rounded doubles
                        Some(f) => val(d_float_approx(f, 2)),
                        None => err.clone(),
                    },
                }
            };
            let args = [int_src(&a, t), int_src(&b, t)];
            body = render_call(op.name, op.sugar, &args, t);
        }
        "pow" => {
            // keep results below ~20k bits
            b = BigInt::from(t.range(-2, 40));
            if t.chance(40) {
                b = BigInt::from(*t.pick(&[0i64, 1, 2, 63, 64, 65, 127, 128, 200]));
            }
            if a.bits() * b.to_u64().unwrap_or(0) > 20_000 {
                a = BigInt::from(t.range(-3, 3));
            }
            ret_type = "int";
            expect = if b.is_negative() || (a.is_zero() && b.is_zero()) {
                err.clone()
            } else {
                val(d_int(&num_traits::pow::pow(a.clone(), b.to_usize().unwrap())))
            };
            // `-a ** b` spelling is avoided by int_src's parentheses
            let args = [int_src(&a, t), int_src(&b, t)];
            body = render_call(op.name, op.sugar, &args, t);
        }
        "eq" | "ne" | "lt" | "le" | "gt" | "ge" | "cmp" => {
            if t.chance(60) {
                b = a.clone();
            }
            let o = a.cmp(&b);
            use std::cmp::Ordering::*;
            ret_type = if op.name == "cmp" { "int" } else { "bool" };
            expect = val(match op.name {
                "eq" => d_bool(o == Equal),
                "ne" => d_bool(o != Equal),
                "lt" => d_bool(o == Less),
                "le" => d_bool(o != Greater),
                "gt" => d_bool(o == Greater),
                "ge" => d_bool(o != Less),
                _ => d_i64(match o {
                    Less => -1,
                    Equal => 0,
                    Greater => 1,
                }),
            });
            let args = [int_src(&a, t), int_src(&b, t)];
            body = render_call(op.name, op.sugar, &args, t);
        }
        "gcd" => {
            ret_type = "int";
            expect = val(d_int(&a.gcd(&b)));
            body = render_call("gcd", None, &[int_src(&a, t), int_src(&b, t)], t);
        }
        "lcm" => {
            ret_type = "int";
            expect = if a.is_zero() && b.is_zero() {
                // the book says error, the convention lcm(0,0)=0 is also exact
                underspecified = true;
                Expect::OneOf {
                    alts: vec![err.clone(), val(d_i64(0))],
                }
            } else {
                val(d_int(&a.lcm(&b)))
            };
            body = render_call("lcm", None, &[int_src(&a, t), int_src(&b, t)], t);
        }
        "binom" => {
            a = BigInt::from(t.range(-2, 140));
            b = BigInt::from(t.range(-2, 140));
            if t.chance(60) {
                // central coefficients overflow 64 bits from n = 67
                a = BigInt::from(t.range(60, 140));
                b = &a / 2 + BigInt::from(t.range(-3, 3));
            }
            ret_type = "int";
            expect = if b.is_negative() || b > a {
                err.clone()
            } else {
                let (n, k) = (a.to_u64().unwrap(), b.to_u64().unwrap());
                let mut r = BigInt::one();
                for i in 0..k {
                    r = r * BigInt::from(n - i) / BigInt::from(i + 1);
                }
                val(d_int(&r))
            };
            body = render_call("binom", None, &[int_src(&a, t), int_src(&b, t)], t);
        }
        "neg" | "abs" | "sign" | "to_str" | "hash" | "to_float" => {
            ret_type = match op.name {
                "to_str" => "str",
                "to_float" => "float",
                _ => "int",
            };
            expect = match op.name {
                "neg" => val(d_int(&-&a)),
                "abs" => val(d_int(&a.abs())),
                "sign" => val(d_i64(if a.is_negative() {
                    -1
                } else if a.is_zero() {
                    0
                } else {
                    1
                })),
                "to_str" => val(d_str(&a.to_string())),
                "to_float" => match exact_to_f64(&a) {
                    Some(f) => val(d_float_approx(f, 1)),
                    None => err.clone(),
                },
                _ => {
                    // hash: only its range is specified here; equality of hashes of equal
                    // values is the route family's business
                    body = format!(
                        "{{ let h = hash({}); h >= 0 && h < 18446744073709551616 }}",
                        int_src(&a, t)
                    );
                    let mut c = ValCase::new("bool", body.trim_matches(|c| c == '{' || c == '}').to_string(), val(d_bool(true)));
                    c.nontrivial = big(&a);
                    c.describe = format!("hash({a}) in [0,2^64)");
                    c = c.key("op", "hash").key("a_class", class_of(&a)).class("op:hash");
                    return c;
                }
            };
            body = render_call(op.name, op.sugar, &[int_src(&a, t)], t);
        }
        "factorial" | "factorial2" => {
            a = BigInt::from(t.range(-2, 60));
            ret_type = "int";
            let step = if op.name == "factorial2" { t.range(1, 4) } else { 1 };
            expect = if a.is_negative() {
                err.clone()
            } else {
                let mut r = BigInt::one();
                let mut k = a.to_i64().unwrap();
                while k > 0 {
                    r *= k;
                    k -= step;
                }
                val(d_int(&r))
            };
            body = if op.name == "factorial2" {
                b = BigInt::from(step);
                format!("factorial({}, {})", int_src(&a, t), step)
            } else {
                format!("factorial({})", int_src(&a, t))
            };
        }
        "digits" | "digits10" => {
            a = a.abs();
            let base: BigInt = if op.name == "digits10" {
                BigInt::from(10)
            } else {
                match t.below(4) {
                    0 => BigInt::from(t.range(2, 36)),
                    1 => BigInt::from(2),
                    2 => pow2(*t.pick(&[8u32, 32, 63, 64, 70])),
                    _ => BigInt::from(t.range(2, 1000)),
                }
            };
            b = base.clone();
            let mut ds = vec![];
            let mut n = a.clone();
            while !n.is_zero() {
                let (q, r) = n.div_rem(&base);
                ds.push(d_int(&r));
                n = q;
            }
            ret_type = "Sequence<int>";
            expect = val(d_seq(ds));
            body = if op.name == "digits10" {
                format!("digits({})", int_src(&a, t))
            } else {
                format!("digits({}, {})", int_src(&a, t), int_src(&base, t))
            };
        }
        "multinom" => {
            let n = t.range(0, 5) as usize;
            let ks: Vec<i64> = (0..n).map(|_| t.range(0, 30)).collect();
            let total: i64 = ks.iter().sum();
            let mut r = BigInt::one();
            let mut rem = total;
            for k in &ks {
                // binom(rem, k)
                let mut c = BigInt::one();
                for i in 0..*k {
                    c = c * BigInt::from(rem - i) / BigInt::from(i + 1);
                }
                r *= c;
                rem -= k;
            }
            a = BigInt::from(total);
            b = r.clone();
            ret_type = "int";
            expect = val(d_int(&r));
            body = format!(
                "multinom([{}])",
                ks.iter().map(|k| k.to_string()).collect::<Vec<_>>().join(", ")
            );
            opclass = format!("n{n}");
        }
        "format_radix" => {
            let (spec, radix) = *t.pick(&[("b", 2u32), ("o", 8), ("x", 16), ("", 10)]);
            let mut s = a.abs().to_str_radix(radix);
            if a.is_negative() {
                s = format!("-{s}");
            }
            ret_type = "str";
            expect = val(d_str(&s));
            body = format!("format({}, \"{}\")", int_src(&a, t), spec);
            opclass = format!("spec:{spec}");
        }
        "to_int_radix" => {
            let radix = t.range(2, 36) as u32;
            let mut s = a.to_str_radix(radix);
            if t.bool() {
                s = s.to_uppercase();
            }
            ret_type = "int";
            expect = val(d_int(&a));
            b = BigInt::from(radix);
            body = if radix == 10 && t.bool() {
                format!("to_int(\"{s}\")")
            } else {
                format!("to_int(\"{s}\", {radix})")
            };
        }
        "floor_root" | "ceil_root" => {
            a = a.abs();
            if a.bits() > 62 {
                a = BigInt::from(t.range(0, 1 << 40));
            }
            if t.chance(80) {
                // perfect powers and their neighbours
                let r = t.range(0, 2000);
                a = BigInt::from(r * r + t.range(-1, 1)).abs();
            }
            let r = t.range(2, 4) as u32;
            b = BigInt::from(r);
            let fl = floor_root(&a, r);
            let exact = num_traits::pow::pow(fl.clone(), r as usize) == a;
            let res = if op.name == "floor_root" || exact { fl } else { fl + 1 };
            ret_type = "int";
            expect = val(d_int(&res));
            body = if r == 2 && t.bool() {
                format!("{}({})", op.name, int_src(&a, t))
            } else {
                format!("{}({}, {})", op.name, int_src(&a, t), r)
            };
        }
        _ => unreachable!(),
    }
    if ctx.excluded(&format!("op:{}", op.name)) {
        excluded = 1;
    }
    let mut c = ValCase::new(ret_type, body, expect);
    let res_big = match &c.expect {
        Expect::Dump { dump } => dump["i"].as_str().map_or(false, |s| s.trim_start_matches('-').len() >= 19),
        _ => false,
    };
    c.nontrivial = big(&a) || (op.arity >= 2 && big(&b)) || res_big;
    c.describe = if op.arity == 1 {
        format!("{}({a})", op.name)
    } else {
        format!("{}({a}, {b})", op.name)
    };
    c.underspecified = underspecified;
    c.excluded = excluded;
    c = c
        .key("op", op.name)
        .key("a_class", class_of(&a))
        .key("b_class", class_of(&b))
        .key("a_sign", sign_class(&a))
        .key("b_sign", sign_class(&b))
        .key("mixed", if big(&a) != big(&b) { "mixed" } else { "same" })
        .key("sub", opclass)
        .class(format!("op:{}", op.name))
        .class(format!("a:{}", class_of(&a)));
    c
}

// ------------------------------------------------------------------ routes

/// an expression computing `v` by a detour, with the model making sure it is exact
fn route(v: &BigInt, t: &mut Tape, depth: u32) -> (String, &'static str) {
    let base = |t: &mut Tape| int_src(v, t);
    if depth == 0 {
        return (base(t), "lit");
    }
    let k = gen_int(t);
    let inner = |t: &mut Tape, x: &BigInt| route(x, t, depth - 1).0;
    match t.below(14) {
        0 => (base(t), "lit"),
        1 => {
            // (v + k) - k
            let s = v + &k;
            (format!("(({}) - {})", inner(t, &s), int_src(&k, t)), "add_sub")
        }
        2 => {
            // (v - k) + k
            let s = v - &k;
            (format!("(({}) + {})", inner(t, &s), int_src(&k, t)), "sub_add")
        }
        3 => (format!("(-({}))", inner(t, &-v)), "neg"),
        4 => (format!("(({}) * (-1))", inner(t, &-v)), "mul_m1"),
        5 => (format!("to_int(to_str({}))", inner(t, v)), "text"),
        6 => {
            // (v * k) div_floor k, k != 0
            let k = if k.is_zero() { BigInt::from(3) } else { k };
            let p = v * &k;
            (format!("div_floor({}, {})", inner(t, &p), int_src(&k, t)), "mul_div")
        }
        7 => {
            // v ^ k ^ k
            let x = v ^ &k;
            (format!("(({}) ^ {})", inner(t, &x), int_src(&k, t)), "xor")
        }
        8 => {
            // q*k + r with floored division
            let k = if k.is_zero() { BigInt::from(7) } else { k };
            let (q, r) = v.div_mod_floor(&k);
            (
                format!("(({}) * {} + {})", inner(t, &q), int_src(&k, t), int_src(&r, t)),
                "divmod",
            )
        }
        9 => {
            // k - (k - v)
            let d = &k - v;
            (format!("({} - ({}))", int_src(&k, t), inner(t, &d)), "rsub")
        }
        10 => {
            if v.is_negative() {
                (format!("(-abs({}))", inner(t, v)), "abs")
            } else {
                (format!("abs({})", inner(t, &-v)), "abs")
            }
        }
        11 => {
            // halves: v = a + b
            let a = v / 2;
            let b = v - &a;
            (format!("(({}) + ({}))", inner(t, &a), inner(t, &b)), "halves")
        }
        12 => {
            // sum of a sequence
            let a = v / 3;
            let b = v - &a - &a;
            (
                format!("sum([{}, {}, {}])", inner(t, &a), int_src(&a, t), inner(t, &b)),
                "sum",
            )
        }
        _ => {
            // v = (v << s) >> s through multiplication and division by a power of two
            let s = t.range(1, 70) as u32;
            let p = v * pow2(s);
            (format!("div_floor({}, 2 ** {})", inner(t, &p), s), "shift")
        }
    }
}

fn gen_route_case(t: &mut Tape) -> ValCase {
    let v = if t.chance(120) {
        // values that fit a machine word but are reached through big intermediates, and
        // values exactly at the boundary
        let pool = [
            BigInt::zero(),
            BigInt::one(),
            -BigInt::one(),
            pow2(63),
            -pow2(63),
            pow2(63) - 1,
            -pow2(63) - 1,
            pow2(64),
            -pow2(64),
        ];
        t.pick(&pool).clone()
    } else {
        gen_int(t)
    };
    let depth = t.range(1, 3) as u32;
    let (x, kx) = route(&v, t, depth);
    let (y, ky) = route(&v, t, depth);
    let w = &v + BigInt::from(t.range(1, 3));
    let (z, _) = route(&w, t, 1);
    let body = format!(
        "let x = {x};\n  let y = {y};\n  let z = {z};\n  (x, x == y, cmp(x, y), hash(x) == hash(y), to_str(x) == to_str(y), x <= y && x >= y, x < y || x > y, x != y, [x] == [y], x < z, cmp(z, y), mapping<int>().set(x, 1).get(y, 0), set<int>().add(x).contains(y))"
    );
    let expect = Expect::Dump {
        dump: d_tuple(vec![
            d_int(&v),
            d_bool(true),
            d_i64(0),
            d_bool(true),
            d_bool(true),
            d_bool(true),
            d_bool(false),
            d_bool(false),
            d_bool(true),
            d_bool(true),
            d_i64(1),
            d_i64(1),
            d_bool(true),
        ]),
    };
    let mut c = ValCase::new(
        "(int, bool, int, bool, bool, bool, bool, bool, bool, bool, int, int, bool)",
        body,
        expect,
    );
    c.nontrivial = big(&v) || x.contains("to_int") || y.contains("to_int") || x.len() > 60;
    c.describe = format!("two routes to {v}: {kx} vs {ky}");
    c = c
        .key("op", "route")
        .key("route_x", kx)
        .key("route_y", ky)
        .key("a_class", class_of(&v))
        .class(format!("route:{kx}"))
        .class(format!("route:{ky}"))
        .class(format!("a:{}", class_of(&v)));
    c
}

impl Property for C14 {
    fn id(&self) -> &'static str {
        "C14"
    }
    fn rule(&self) -> String {
        "ops: (integer builtin, operand tuple) decoded from a byte tape (edge pool around 2^31/2^63/2^64/2^127, small values, random 1-400 bit values; literal or to_int spelling; call/operator/method sugar) compared with an independent BigInt computation; routes: two different computation routes to the same value compared for value, ==, cmp, hash, to_str, ordering, use as mapping/set key. Non-trivial = an operand or the result has magnitude >= 2^63 (routes: value >= 2^63 or a route through a >64-bit intermediate). Distinct by hash of the generated function body.".into()
    }
    fn assumptions(&self) -> Vec<String> {
        vec![
            "num-bigint (also a dependency of the code under test) is the trusted arithmetic of the model".into(),
            "int/int true division is accepted within 2 ulps of the correctly rounded exact quotient, to_float within 1 ulp".into(),
            "operands beyond 2^127 are spelled to_int(\"...\") because integer literals are limited to 128 bits".into(),
        ]
    }
    fn families(&self, tier: Tier) -> Vec<Family> {
        let k = if tier == Tier::Quick { 1 } else { 25 };
        vec![
            Family {
                name: "ops",
                batches: 900 * k,
                batch_size: 60,
                tape_len: 160,
            },
            Family {
                name: "routes",
                batches: 300 * k,
                batch_size: 40,
                tape_len: 400,
            },
        ]
    }
    fn run_batch(&self, family: &str, subs: &[Vec<u8>], ctx: &mut Ctx) -> Result<Vec<CaseOutcome>, HarnessError> {
        let cases: Vec<ValCase> = subs
            .iter()
            .map(|s| {
                let mut t = Tape::new(s);
                if family == "routes" {
                    gen_route_case(&mut t)
                } else {
                    gen_op_case(&mut t, ctx)
                }
            })
            .collect();
        run_val_batch(cases, ctx, "value_mismatch")
    }
}
