//! C09 — the size limit is enforced and memory accounting balances.
use crate::direct::end_failure;
use crate::expect::brief;
use crate::pool::HarnessError;
use crate::proto::*;
use crate::runner::*;
use crate::tape::{fnv, Tape};
use serde_json::{json, Value};

pub struct C09;

/// a builder of one value: (source expression, type, lower bound of its payload in bytes)
fn gen_builder(t: &mut Tape) -> (String, &'static str, u64, &'static str) {
    match t.below(16) {
        14 => {
            // a mapping whose hash collides: the entries, not the buckets, are the payload
            let n = t.range(4, 120) as u64;
            let m = t.range(1, 5);
            (
                format!("mapping((x: int) -> {{ x % {m} }}, eq{{int, int}}).update(range({n}).map((x: int) -> {{ (x, x * 2) }}))"),
                "Mapping<int, int>",
                16 * n,
                "mapping",
            )
        }
        15 => {
            let n = t.range(4, 120) as u64;
            let m = t.range(1, 5);
            (format!("set((x: int) -> {{ x % {m} }}, eq{{int, int}}).update(range({n}))"), "Set<int>", 8 * n, "set")
        }
        0 => {
            let bits = *t.pick(&[70u64, 200, 1000, 4000]);
            (format!("2 ** {bits}"), "int", bits / 8, "bigint")
        }
        1 => {
            let n = t.range(1, 400) as u64;
            (format!("\"ab\" * {n}"), "str", 2 * n, "string")
        }
        2 => {
            let n = t.range(0, 200) as u64;
            (format!("range({n}).to_array()"), "Sequence<int>", 8 * n, "array")
        }
        3 => {
            let n = t.range(0, 120) as u64;
            (
                format!("range({n}).map((x: int) -> {{ x * 1000003 }}).to_array()"),
                "Sequence<int>",
                8 * n,
                "forced_map",
            )
        }
        4 => {
            let n = t.range(0, 100) as u64;
            (format!("range({n}).to_array().to_stack()"), "Stack<int>", 8 * n, "stack")
        }
        5 => {
            let n = t.range(0, 80) as u64;
            (format!("set<int>().update(range({n}))"), "Set<int>", 8 * n, "set")
        }
        6 => {
            let n = t.range(0, 80) as u64;
            (
                format!("mapping<int>().update(range({n}).map((x: int) -> {{ (x, x * 2) }}))"),
                "Mapping<int, int>",
                16 * n,
                "mapping",
            )
        }
        7 => {
            let n = t.range(0, 60) as u64;
            (
                format!("range({n}).map((x: int) -> {{ (x, to_str(x)) }}).to_array()"),
                "Sequence<(int, str)>",
                8 * n,
                "tuples",
            )
        }
        8 => {
            let n = t.range(1, 50) as u64;
            (
                format!("join(range({n}).map((x: int) -> {{ to_str(x) }}), \",\")"),
                "str",
                n,
                "joined_string",
            )
        }
        9 => ("((x: int) -> { (y: int) -> { x + y } })(5)".into(), "(int)->(int)", 0, "closure"),
        10 => {
            let n = t.range(0, 60) as u64;
            (format!("range({n}).map((x: int) -> {{ some(x) }}).to_array()"), "Sequence<Optional<int>>", 8 * n, "optionals")
        }
        11 => {
            let n = t.range(2, 40) as u64;
            (format!("factorial({n})"), "int", 0, "factorial")
        }
        12 => {
            let n = t.range(0, 40) as u64;
            (
                format!("range({n}).to_generator().map((x: int) -> {{ [x, x] }}).to_array()"),
                "Sequence<Sequence<int>>",
                8 * n,
                "nested_arrays",
            )
        }
        _ => {
            let n = t.range(0, 60) as u64;
            (format!("sort(range({n}).map((x: int) -> {{ (x * 7) % 11 }}).to_array())"), "Sequence<int>", 8 * n, "sorted")
        }
    }
}

/// separately allocated int elements held by a value built by `tag` with parameter n
fn elems_of(tag: &str, container_bytes: u64) -> u64 {
    match tag {
        "array" | "forced_map" | "stack" | "set" | "optionals" | "sorted" | "tuples" => container_bytes / 8,
        "mapping" => container_bytes / 8,
        "nested_arrays" => container_bytes / 4,
        _ => 0,
    }
}

struct Prog {
    src: String,
    payload: u64,
    elems: u64,
    tags: Vec<&'static str>,
    names: Vec<String>,
}

fn gen_prog(t: &mut Tape) -> Prog {
    let k = 1 + t.below(3);
    let mut decls = vec![];
    let mut payload = 0;
    let mut elems = 0;
    let mut tags = vec![];
    let mut names = vec![];
    for i in 0..k {
        let (src, ty, lb, tag) = gen_builder(t);
        decls.push(format!("let v{i}: {ty} = {src};"));
        payload += lb;
        elems += elems_of(tag, lb);
        tags.push(tag);
        names.push(format!("v{i}"));
    }
    // the same builders once more inside an exported function (run repeatedly)
    let (fsrc, fty, _, ftag) = gen_builder(t);
    tags.push(ftag);
    let fail = match t.below(5) {
        // a run that ends half-way for another reason
        0 => ("fn c1() -> int { let a = range(50).to_array(); a[99] }\n", "error_value"),
        1 => ("fn r(n: int) -> int { if(n <= 0, 0, 1 + r(n - 1)) }\nfn c1() -> int { let a = range(50).to_array(); r(100000) + len(a) }\n", "other_violation"),
        _ => ("fn c1() -> int { 1 }\n", "plain"),
    };
    tags.push(fail.1);
    Prog {
        src: format!("{}\nfn c0() -> {fty} {{ {fsrc} }}\n{}", decls.join("\n"), fail.0),
        payload,
        elems,
        tags,
        names,
    }
}

fn bytes_of(o: &Out) -> Option<u64> {
    match o {
        Out::Counters { bytes, .. } => Some(*bytes),
        _ => None,
    }
}

const HUGE: u64 = 1 << 40;

fn job_for(src: &str, size: u64, depth: Option<u64>) -> Job {
    let mut job = Job::new(src.to_string());
    job.steps = vec![
        Step::TraceStart,           // 0
        Step::Compile { src: 0 },   // 1
        Step::Instantiate,          // 2
        Step::Counters,             // 3: after instantiation
        Step::RunQuiet { name: "c0".into() }, // 4
        Step::Counters,             // 5: the result was dropped
        Step::RunQuiet { name: "c0".into() }, // 6: repeated run on the same runtime
        Step::RunQuiet { name: "c1".into() }, // 7: a run that may end in an error / another violation
        Step::Counters,             // 8
        Step::DropScope,            // 9
        Step::Counters,             // 10: everything dropped
        Step::TraceTake,            // 11
    ];
    job.limits = Limits { size: Some(size), depth, ..Limits::default() };
    job.cpu_s = 30;
    job
}

fn empty_baseline(ctx: &mut Ctx) -> Result<u64, HarnessError> {
    let r = ctx.exec(&job_for("fn c0() -> int { 1 }\nfn c1() -> int { 1 }\n", HUGE, None))?;
    bytes_of(r.step(3)).ok_or_else(|| HarnessError("cannot read the library baseline".into()))
}

/// accounted size of one small int value, read from the interpreter itself
fn int_value_size(ctx: &mut Ctx, lib_base: u64) -> Result<u64, HarnessError> {
    let r = ctx.exec(&job_for("let e0 = 7;\nlet e1 = 8;\nfn c0() -> int { 1 }\nfn c1() -> int { 1 }\n", HUGE, None))?;
    let b = bytes_of(r.step(3)).ok_or_else(|| HarnessError("cannot read the int size".into()))?;
    Ok((b.saturating_sub(lib_base)) / 2)
}

fn run_case(t: &mut Tape, ctx: &mut Ctx) -> Result<CaseOutcome, HarnessError> {
    let p = gen_prog(t);
    let mut o = CaseOutcome {
        key: fnv(p.src.as_bytes()),
        classes: p.tags.iter().map(|s| format!("build:{s}")).collect(),
        ..Default::default()
    };
    let fail = |kind: &str, msg: String, job: &Job| {
        Failure::new(kind, format!("{msg}\n{}", p.src))
            .key("tags", p.tags.join(","))
            .direct(json!({"form": "c09", "job": job, "check": kind}))
    };
    let depth = Some(2000);
    let base_job = job_for(&p.src, HUGE, depth);
    let base = ctx.exec(&base_job)?;
    o.evals += 1;
    if let Some(f) = end_failure(&base) {
        o.failures.push(f.direct(json!({"form": "no_crash", "job": base_job})));
        return Ok(o);
    }
    if !matches!(base.step(1), Out::Done) || !matches!(base.step(2), Out::Done) {
        o.failures.push(fail("unexpected_outcome", format!("the unlimited run did not instantiate: {} / {}", brief(base.step(1)), brief(base.step(2))), &base_job));
        return Ok(o);
    }
    let lib_base = empty_baseline(ctx)?;
    o.evals += 1;
    let (Some(b_inst), Some(b_run), Some(b_runs), Some(b_end)) =
        (bytes_of(base.step(3)), bytes_of(base.step(5)), bytes_of(base.step(8)), bytes_of(base.step(10)))
    else {
        return Ok(o);
    };
    // (b) every live value is accounted for at least its payload: the containers' own bytes
    // plus one int value per separately allocated element
    let int_size = int_value_size(ctx, lib_base)?;
    o.evals += 1;
    let payload = p.payload + p.elems * int_size;
    if b_inst < lib_base + payload {
        o.failures.push(fail(
            "payload_not_accounted",
            format!(
                "after instantiation {b_inst} bytes are accounted; the empty program accounts {lib_base}; the exported values alone hold at least {} payload bytes ({} container/string/bigint bytes + {} int elements of {int_size} bytes)",
                payload, p.payload, p.elems
            ),
            &base_job,
        ));
    }
    // (c) balance: the result of a run is dropped -> back to the level after instantiation,
    // also after repeated runs and after a run that ended in an error / another violation;
    // everything dropped -> zero
    if b_run != b_inst {
        o.failures.push(fail("unbalanced_after_run", format!("accounted bytes: {b_inst} after instantiation, {b_run} after running c0 and dropping its result"), &base_job));
    }
    if b_runs != b_inst {
        o.failures.push(fail(
            "unbalanced_after_runs",
            format!("accounted bytes: {b_inst} after instantiation, {b_runs} after a second run of c0 and a run of c1 ({})", brief(base.step(7))),
            &base_job,
        ));
    }
    if b_end != 0 {
        o.failures.push(fail("unbalanced_at_end", format!("{b_end} bytes still accounted after the evaluation scope was dropped"), &base_job));
    }
    // the allocation trace of the passing run: every running total at which a new maximum is
    // reached is a point where a smaller limit lands its first failure
    let Out::Trace { trace } = base.step(11).clone() else { return Ok(o) };
    let mut maxima: Vec<u64> = vec![];
    let mut cur = 0u64;
    for e in &trace {
        if *e > 0 && (*e as u64) > cur {
            cur = *e as u64;
            maxima.push(cur);
        }
    }
    // the library itself needs lib_base: below that nothing runs
    let mut points: Vec<u64> = maxima.iter().copied().filter(|m| *m > lib_base.saturating_sub(2000)).collect();
    points.dedup();
    let peak = cur;
    // sample at most 40 failure points, always including the first and last few
    if points.len() > 40 {
        let n = points.len();
        let mut keep: Vec<u64> = points[..6].to_vec();
        keep.extend(&points[n - 6..]);
        for _ in 0..28 {
            keep.push(points[t.below(n)]);
        }
        keep.sort();
        keep.dedup();
        points = keep;
    }
    let mut passing_seen = false;
    let mut failure_points = 0;
    for m in points {
        for l in [m - 1, m] {
            let job = job_for(&p.src, l, depth);
            let r = ctx.exec(&job)?;
            o.evals += 1;
            if let Some(f) = end_failure(&r) {
                o.failures.push(f.direct(json!({"form": "no_crash", "job": job})));
                continue;
            }
            let viol = r.steps.iter().any(|s| matches!(s, Out::Violation { v } if v == "AllocationLimitReached"));
            let Out::Trace { trace } = r.step(11).clone() else { continue };
            let over = trace.iter().filter(|e| **e > 0 && **e as u64 > l).count();
            let violating_steps = r.steps.iter().filter(|s| matches!(s, Out::Violation { v } if v == "AllocationLimitReached")).count();
            // (a) the accounted total never exceeds L unless the evaluation ends in the violation:
            // every allocation that lifts the total above L ends its step, so there are at
            // most as many of them as steps that ended in the violation
            if over > violating_steps {
                o.failures.push(fail(
                    "limit_exceeded_silently",
                    format!("size limit {l}: {over} allocations lifted the accounted total above the limit but only {violating_steps} steps ended in AllocationLimitReached"),
                    &job,
                ));
            }
            // (c) balance after a failing run too
            if let Some(b) = bytes_of(r.step(10)) {
                if b != 0 {
                    o.failures.push(fail(
                        "unbalanced_after_violation",
                        format!("size limit {l}: {b} bytes still accounted after everything was dropped (violation seen: {viol})"),
                        &job,
                    ));
                }
            }
            if viol {
                failure_points += 1;
                // (d) upward closed: once a limit passes, no larger one fails
                if passing_seen {
                    o.failures.push(fail("not_upward_closed", format!("size limit {l} fails although a smaller limit passed"), &job));
                }
            } else {
                passing_seen = true;
                // a passing run gives what the unlimited run gives
                for i in [4usize, 6, 7] {
                    if r.step(i) != base.step(i) {
                        o.failures.push(fail(
                            "limit_changed_result",
                            format!("size limit {l}: step {i} is {} but {} without a limit", brief(r.step(i)), brief(base.step(i))),
                            &job,
                        ));
                    }
                }
            }
            for s in &r.steps {
                if let Out::Panic { msg, loc } = s {
                    o.failures.push(fail("panic", format!("size limit {l}: panic {msg} at {loc}"), &job));
                }
            }
        }
    }
    // far above the peak (pre-flight estimates included) the run must pass
    {
        let job = job_for(&p.src, peak * 4 + (1 << 20), depth);
        let r = ctx.exec(&job)?;
        o.evals += 1;
        if r.steps.iter().any(|s| matches!(s, Out::Violation { v } if v == "AllocationLimitReached")) {
            o.failures.push(fail("not_upward_closed", format!("a size limit far above the peak of the unlimited run ({peak}) fails"), &job));
        }
    }
    o.nontrivial = failure_points >= 2;
    o.classes.push(format!("failure_points:{}", if failure_points >= 10 { "10+" } else if failure_points >= 2 { "2-9" } else { "0-1" }));
    o.sample = Some(json!({
        "program": p.src, "payload_lower_bound": p.payload, "library_baseline": lib_base,
        "accounted_after_instantiate": b_inst, "peak": peak, "allocations": trace.iter().filter(|e| **e > 0).count(),
        "limit_runs": o.evals, "runs_ending_in_the_violation": failure_points, "values": p.names,
    }));
    Ok(o)
}


// ---------------------------------------------------------------- library family
//
// Programs over the WHOLE library (the type-directed generator of C01): the balance and
// enforcement clauses of the property need no model, so they can be asked of any program.

fn lib_job(srcs: &[String], limits: Limits, trace: bool) -> Job {
    let n = srcs.len();
    let mut job = Job::new("");
    job.srcs = srcs.to_vec();
    job.steps = vec![];
    for i in 0..n {
        job.steps.push(Step::Compile { src: i });
    }
    job.steps.push(Step::Instantiate);
    job.steps.push(Step::Counters);
    for i in 0..n {
        job.steps.push(Step::ResetCalls);
        if trace {
            // the allocation trace of this run alone
            job.steps.push(Step::TraceStart);
        }
        job.steps.push(Step::Run { name: format!("c{i}") });
        if trace {
            job.steps.push(Step::TraceTake);
        }
        job.steps.push(Step::Counters);
    }
    job.steps.push(Step::DropScope);
    job.steps.push(Step::Counters);
    job.limits = limits;
    job.cpu_s = 30;
    job
}

/// indices into the steps of a `lib_job`
struct LibIdx {
    /// 1 when the job records a trace per run, else 0
    off: usize,
    n: usize,
}
impl LibIdx {
    fn per(&self) -> usize {
        3 + 2 * self.off
    }
    fn inst(&self) -> usize {
        self.n
    }
    fn base(&self) -> usize {
        self.n + 1
    }
    fn run(&self, i: usize) -> usize {
        self.n + 2 + self.per() * i + 1 + self.off
    }
    fn trace(&self, i: usize) -> usize {
        self.run(i) + 1
    }
    fn after(&self, i: usize) -> usize {
        self.n + 2 + self.per() * i + self.per() - 1
    }
    fn end(&self) -> usize {
        self.n + 2 + self.per() * self.n + 1
    }
}

/// the model-free clauses on one reply: (kind, case index or None, message)
fn lib_balance(r: &Reply, ix: &LibIdx, limit: u64, traced: bool) -> Vec<(&'static str, Option<usize>, String)> {
    let mut bad = vec![];
    if r.end != End::Ok || !matches!(r.step(ix.inst()), Out::Done) {
        return bad;
    }
    let Some(b_inst) = bytes_of(r.step(ix.base())) else { return bad };
    let mut prev = b_inst;
    let mut panicked = false;
    for i in 0..ix.n {
        if r.step(ix.run(i)).is_panic() || matches!(r.step(ix.run(i)), Out::Skipped) {
            panicked = true;
            break;
        }
        let Some(b) = bytes_of(r.step(ix.after(i))) else { break };
        if b != prev {
            bad.push((
                "unbalanced_after_run",
                Some(i),
                format!("accounted bytes were {prev} before running c{i} and {b} after its result was dropped (outcome: {})", brief(r.step(ix.run(i)))),
            ));
            prev = b;
        }
    }
    if !panicked {
        if let Some(b) = bytes_of(r.step(ix.end())) {
            if b != 0 {
                bad.push(("unbalanced_at_end", None, format!("{b} bytes still accounted after the evaluation scope was dropped")));
            }
        }
    }
    if traced {
        // clause (a), run by run: an allocation that lifts the accounted total above L is only
        // allowed in a run that ends in the allocation violation
        for i in 0..ix.n {
            if r.step(ix.run(i)).is_panic() || matches!(r.step(ix.run(i)), Out::Skipped) {
                break;
            }
            if let Out::Trace { trace } = r.step(ix.trace(i)) {
                let over = trace.iter().filter(|e| **e > 0 && **e as u64 > limit).count();
                let violated = matches!(r.step(ix.run(i)), Out::Violation { v } if v == "AllocationLimitReached");
                if over > 0 && !violated {
                    bad.push((
                        "limit_exceeded_silently",
                        Some(i),
                        format!("size limit {limit}: while c{i} ran, {over} allocations lifted the accounted total above the limit, but the run ended in {} instead of AllocationLimitReached", brief(r.step(ix.run(i)))),
                    ));
                }
            }
        }
    }
    bad
}

/// a run under a tighter size limit either ends in the allocation violation or gives what the
/// generous run gives
fn lib_compare(gen: &Reply, tight: &Reply, ix_g: &LibIdx, ix_t: &LibIdx) -> Vec<(&'static str, Option<usize>, String)> {
    let mut bad = vec![];
    if gen.end != End::Ok || tight.end != End::Ok {
        return bad;
    }
    if !matches!(gen.step(ix_g.inst()), Out::Done) || !matches!(tight.step(ix_t.inst()), Out::Done) {
        return bad;
    }
    for i in 0..ix_g.n {
        let (a, b) = (gen.step(ix_g.run(i)), tight.step(ix_t.run(i)));
        if a.is_panic() || b.is_panic() || matches!(a, Out::Skipped) || matches!(b, Out::Skipped) {
            break;
        }
        if matches!(b, Out::Violation { v } if v == "AllocationLimitReached") {
            continue;
        }
        if matches!(a, Out::Violation { v } if v == "AllocationLimitReached") {
            bad.push(("not_upward_closed", Some(i), format!("c{i} ends in AllocationLimitReached under the generous size limit but not under the tight one ({})", brief(b))));
            continue;
        }
        if a != b {
            bad.push(("limit_changed_result", Some(i), format!("c{i}: {} under the generous size limit, {} under the tight one", brief(a), brief(b))));
        }
    }
    bad
}

fn lib_limits(t: &mut Tape, size: u64) -> Limits {
    Limits {
        search: Some(*t.pick(&[50u64, 2_000, 20_000])),
        calls: Some(*t.pick(&[300u64, 20_000, 200_000])),
        depth: Some(*t.pick(&[12u64, 200])),
        recursion: Some(100_000),
        size: Some(size),
        ..Limits::default()
    }
}

fn run_lib_batch(subs: &[Vec<u8>], ctx: &mut Ctx) -> Result<Vec<CaseOutcome>, HarnessError> {
    let l = super::c13::lib(ctx)?;
    let excluded = ctx.findings.excluded_with_prefix("fn:");
    let mut cases = vec![];
    for s in subs {
        let mut t = Tape::new(s);
        cases.push(super::c01::gen_std_case(&mut t, l, &excluded));
    }
    let mut t0 = Tape::new(&subs[0]);
    // the limit choices come from the END of the first tape so that they do not move with the program
    for _ in 0..100 {
        t0.byte();
    }
    let srcs: Vec<String> = cases.iter().enumerate().map(|(i, c)| format!("fn c{i}() -> {} {{\n  {}\n}}\n", c.ret_type, c.body)).collect();
    let n = srcs.len();
    let generous = lib_limits(&mut t0, HUGE);
    let job_g = lib_job(&srcs, generous.clone(), false);
    let ix_g = LibIdx { off: 0, n };
    let ix_t = LibIdx { off: 1, n };
    let rg = ctx.exec(&job_g)?;
    let mut outs: Vec<CaseOutcome> = cases
        .iter()
        .map(|c| CaseOutcome {
            key: fnv(format!("{}|{}", c.ret_type, c.body).as_bytes()),
            classes: vec![],
            evals: 1,
            ..Default::default()
        })
        .collect();
    if rg.end != End::Ok || !matches!(rg.step(ix_g.inst()), Out::Done) {
        // a dead process / failed instantiation is C01's business
        for o in outs.iter_mut() {
            o.inconclusive = true;
        }
        return Ok(outs);
    }
    let b_inst = bytes_of(rg.step(ix_g.base())).unwrap_or(0);
    // a tight limit somewhere above what instantiation needs: many runs end in the violation
    let room = *t0.pick(&[300u64, 1_500, 6_000, 30_000, 200_000]);
    let tight_l = b_inst + room;
    let mut tl = generous.clone();
    tl.size = Some(tight_l);
    let job_t = lib_job(&srcs, tl, true);
    let rt = ctx.exec(&job_t)?;
    let mut all = vec![];
    for (k, i, m) in lib_balance(&rg, &ix_g, HUGE, false) {
        all.push((k, i, m, false));
    }
    for (k, i, m) in lib_balance(&rt, &ix_t, tight_l, true) {
        all.push((k, i, m, true));
    }
    for (k, i, m) in lib_compare(&rg, &rt, &ix_g, &ix_t) {
        all.push((k, i, m, true));
    }
    for i in 0..n {
        let o = &mut outs[i];
        let g = rg.step(ix_g.run(i));
        o.classes.push(format!("generous:{}", g.class()));
        if rt.end == End::Ok {
            let tcls = match rt.step(ix_t.run(i)) {
                Out::Violation { v } if v == "AllocationLimitReached" => "allocation_violation",
                x => x.class(),
            };
            o.classes.push(format!("tight:{tcls}"));
            // non-trivial: the run allocated under accounting and either passed both or tripped the tight limit
            o.nontrivial = matches!(g, Out::Value { .. } | Out::Error { .. } | Out::Violation { .. }) && tcls != "notfound";
        }
        o.sample = Some(json!({"function": srcs[i], "generous": brief(g), "tight_limit": tight_l, "tight": if rt.end == End::Ok { brief(rt.step(ix_t.run(i))) } else { "process died".to_string() }}));
    }
    for (kind, idx, msg, tight) in all {
        // reproduce with the one function alone where the failure names one
        let mut direct = json!({"form": "c09_lib", "srcs": srcs, "generous": generous, "tight": tight_l});
        let mut text = format!("{msg}\n{}", srcs.join(""));
        if let Some(i) = idx {
            let one = vec![srcs[i].replace(&format!("fn c{i}()"), "fn c0()")];
            let jg = lib_job(&one, generous.clone(), false);
            let mut tl1 = generous.clone();
            tl1.size = Some(tight_l);
            let jt = lib_job(&one, tl1, true);
            let (r1, r2) = (ctx.exec(&jg)?, ctx.exec(&jt)?);
            let (i1, i2) = (LibIdx { off: 0, n: 1 }, LibIdx { off: 1, n: 1 });
            let again = lib_balance(&r1, &i1, HUGE, false).len() + lib_balance(&r2, &i2, tight_l, true).len() + lib_compare(&r1, &r2, &i1, &i2).len();
            if again > 0 {
                direct = json!({"form": "c09_lib", "srcs": one, "generous": generous, "tight": tight_l});
                text = format!("{msg}\n{}", one[0]);
            }
        }
        let which = idx.unwrap_or(0);
        let f = Failure::new(kind, format!("[{} size limit] {text}", if tight { "tight" } else { "generous" }))
            .key("fn", cases[which].keys.iter().find(|(k, _)| k == "fn").map(|(_, v)| v.clone()).unwrap_or_default())
            .direct(direct);
        outs[which].failures.push(f);
    }
    outs[0].evals += 1;
    Ok(outs)
}

fn check_lib_direct(direct: &Value, ctx: &mut Ctx) -> Result<Option<Failure>, HarnessError> {
    let srcs: Vec<String> = serde_json::from_value(direct["srcs"].clone()).map_err(|e| HarnessError(e.to_string()))?;
    let generous: Limits = serde_json::from_value(direct["generous"].clone()).map_err(|e| HarnessError(e.to_string()))?;
    let tight_l = direct["tight"].as_u64().unwrap_or(HUGE);
    let n = srcs.len();
    let jg = lib_job(&srcs, generous.clone(), false);
    let mut tl = generous;
    tl.size = Some(tight_l);
    let jt = lib_job(&srcs, tl, true);
    let (rg, rt) = (ctx.exec(&jg)?, ctx.exec(&jt)?);
    let (ig, it) = (LibIdx { off: 0, n }, LibIdx { off: 1, n });
    let mut all = lib_balance(&rg, &ig, HUGE, false);
    all.extend(lib_balance(&rt, &it, tight_l, true));
    all.extend(lib_compare(&rg, &rt, &ig, &it));
    Ok(all.into_iter().next().map(|(k, _, m)| Failure::new(k, m).direct(direct.clone())))
}

impl Property for C09 {
    fn id(&self) -> &'static str {
        "C09"
    }
    fn level(&self) -> &'static str {
        "fault_enumeration"
    }
    fn rule(&self) -> String {
        "A program of 1-3 exported values and an exported function built from 16 builders (big ints, repeated and joined strings, arrays, forced lazy sequences, stacks, sets and mappings incl. ones whose hash collides, tuples, closures, optionals, nested arrays, sorted arrays), plus a second function that ends in an error value or in another violation. With the allocation-trace hook the running accounted total of an unlimited run gives every point where a new maximum is reached; the size limit is then set to each such value and to the value minus one (at most 40 points sampled, first and last always), so the allocation failure lands on every distinct allocation point. Oracle: (a) a total above L only together with AllocationLimitReached; (b) accounted bytes after instantiation >= library baseline + payload lower bound of the exported values; (c) bytes return to the post-instantiation level after each run (repeated runs, runs ending in an error or another violation) and to zero when the scope is dropped, also after every failing run; (d) once a swept limit passes every larger one passes (pre-flight estimates may be pessimistic but must be monotone), a limit far above the peak passes, passing results equal the unlimited ones, no panic. Non-trivial = at least 2 of the swept limits ended in the violation. Distinct by source. library: programs of up to 12 exported functions over the whole standard library (the type-directed generator of C01), run one by one on one runtime under a generous size limit (2^40) and under a tight one (instantiation level + 300..200000 bytes) with random call / search / depth limits; oracle: accounted bytes after every run (value, error value or any violation) equal the level after instantiation and are zero after the scope is dropped; per run, an allocation may lift the total above the tight limit only if that run ends in AllocationLimitReached; a run under the tight limit either ends in that violation or returns exactly what the generous run returns. Non-trivial = the function compiled and ran to a value, an error value or a violation.".into()
    }
    fn assumptions(&self) -> Vec<String> {
        vec![
            "payload lower bounds: 8 bytes per array/stack/set element, 16 per mapping entry, 1 byte per string byte, bits/8 per big integer".into(),
            "accounting is only active when a size limit is set: the 'unlimited' run uses a limit of 2^40".into(),
        ]
    }
    fn families(&self, tier: Tier) -> Vec<Family> {
        let k = if tier == Tier::Quick { 1 } else { 20 };
        vec![
            Family { name: "accounting", batches: 56 * k, batch_size: 1, tape_len: 60 },
            Family { name: "library", batches: 240 * k, batch_size: 12, tape_len: 140 },
        ]
    }
    fn run_batch(&self, family: &str, subs: &[Vec<u8>], ctx: &mut Ctx) -> Result<Vec<CaseOutcome>, HarnessError> {
        if family == "library" {
            return run_lib_batch(subs, ctx);
        }
        let mut outs = vec![];
        for s in subs {
            let mut t = Tape::new(s);
            outs.push(run_case(&mut t, ctx)?);
        }
        Ok(outs)
    }
    fn check_direct(&self, direct: &Value, ctx: &mut Ctx) -> Result<Option<Failure>, HarnessError> {
        if direct["form"].as_str() == Some("c09_lib") {
            return check_lib_direct(direct, ctx);
        }
        if direct["form"].as_str() != Some("c09") {
            return crate::direct::check_generic(direct, ctx);
        }
        let job: Job = serde_json::from_value(direct["job"].clone()).map_err(|e| HarnessError(e.to_string()))?;
        let r = ctx.exec(&job)?;
        if let Some(f) = end_failure(&r) {
            return Ok(Some(f.direct(direct.clone())));
        }
        let l = job.limits.size.unwrap_or(HUGE);
        let viol = r.steps.iter().any(|s| matches!(s, Out::Violation { v } if v == "AllocationLimitReached"));
        let over = match r.step(11) {
            Out::Trace { trace } => trace.iter().filter(|e| **e > 0 && **e as u64 > l).count(),
            _ => 0,
        };
        let violating_steps = r.steps.iter().filter(|s| matches!(s, Out::Violation { v } if v == "AllocationLimitReached")).count();
        let bad = match direct["check"].as_str().unwrap_or("") {
            "limit_exceeded_silently" => over > violating_steps,
            "unbalanced_at_end" | "unbalanced_after_violation" => bytes_of(r.step(10)).map_or(false, |b| b != 0),
            "unbalanced_after_run" => bytes_of(r.step(3)) != bytes_of(r.step(5)),
            "unbalanced_after_runs" => bytes_of(r.step(3)) != bytes_of(r.step(8)),
            "panic" => r.steps.iter().any(|s| s.is_panic()),
            _ => false,
        };
        Ok(if bad {
            Some(Failure::new(direct["check"].as_str().unwrap_or("c09"), "still fails").direct(direct.clone()))
        } else {
            None
        })
    }
}
