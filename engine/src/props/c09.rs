//! C09 — the size limit is enforced and memory accounting balances.
use crate::direct::end_failure;
use crate::expect::brief;
use crate::pool::HarnessError;
use crate::proto::*;
use crate::runner::*;
use crate::tape::{fnv, Tape};
use serde_json::{json, Value};

pub struct C09;

/// a builder of one value: (source expression, type, lower bound of its payload in bytes)
fn gen_builder(t: &mut Tape) -> (String, &'static str, u64, &'static str) {
    match t.below(16) {
        14 => {
            // a mapping whose hash collides: the entries, not the buckets, are the payload
            let n = t.range(4, 120) as u64;
            let m = t.range(1, 5);
            (
                format!("mapping((x: int) -> {{ x % {m} }}, eq{{int, int}}).update(range({n}).map((x: int) -> {{ (x, x * 2) }}))"),
                "Mapping<int, int>",
                16 * n,
                "mapping",
            )
        }
        15 => {
            let n = t.range(4, 120) as u64;
            let m = t.range(1, 5);
            (format!("set((x: int) -> {{ x % {m} }}, eq{{int, int}}).update(range({n}))"), "Set<int>", 8 * n, "set")
        }
        0 => {
            let bits = *t.pick(&[70u64, 200, 1000, 4000]);
            (format!("2 ** {bits}"), "int", bits / 8, "bigint")
        }
        1 => {
            let n = t.range(1, 400) as u64;
            (format!("\"ab\" * {n}"), "str", 2 * n, "string")
        }
        2 => {
            let n = t.range(0, 200) as u64;
            (format!("range({n}).to_array()"), "Sequence<int>", 8 * n, "array")
        }
        3 => {
            let n = t.range(0, 120) as u64;
            (
                format!("range({n}).map((x: int) -> {{ x * 1000003 }}).to_array()"),
                "Sequence<int>",
                8 * n,
                "forced_map",
            )
        }
        4 => {
            let n = t.range(0, 100) as u64;
            (format!("range({n}).to_array().to_stack()"), "Stack<int>", 8 * n, "stack")
        }
        5 => {
            let n = t.range(0, 80) as u64;
            (format!("set<int>().update(range({n}))"), "Set<int>", 8 * n, "set")
        }
        6 => {
            let n = t.range(0, 80) as u64;
            (
                format!("mapping<int>().update(range({n}).map((x: int) -> {{ (x, x * 2) }}))"),
                "Mapping<int, int>",
                16 * n,
                "mapping",
            )
        }
        7 => {
            let n = t.range(0, 60) as u64;
            (
                format!("range({n}).map((x: int) -> {{ (x, to_str(x)) }}).to_array()"),
                "Sequence<(int, str)>",
                8 * n,
                "tuples",
            )
        }
        8 => {
            let n = t.range(1, 50) as u64;
            (
                format!("join(range({n}).map((x: int) -> {{ to_str(x) }}), \",\")"),
                "str",
                n,
                "joined_string",
            )
        }
        9 => ("((x: int) -> { (y: int) -> { x + y } })(5)".into(), "(int)->(int)", 0, "closure"),
        10 => {
            let n = t.range(0, 60) as u64;
            (format!("range({n}).map((x: int) -> {{ some(x) }}).to_array()"), "Sequence<Optional<int>>", 8 * n, "optionals")
        }
        11 => {
            let n = t.range(2, 40) as u64;
            (format!("factorial({n})"), "int", 0, "factorial")
        }
        12 => {
            let n = t.range(0, 40) as u64;
            (
                format!("range({n}).to_generator().map((x: int) -> {{ [x, x] }}).to_array()"),
                "Sequence<Sequence<int>>",
                8 * n,
                "nested_arrays",
            )
        }
        _ => {
            let n = t.range(0, 60) as u64;
            (format!("sort(range({n}).map((x: int) -> {{ (x * 7) % 11 }}).to_array())"), "Sequence<int>", 8 * n, "sorted")
        }
    }
}

/// separately allocated int elements held by a value built by `tag` with parameter n
fn elems_of(tag: &str, container_bytes: u64) -> u64 {
    match tag {
        "array" | "forced_map" | "stack" | "set" | "optionals" | "sorted" | "tuples" => container_bytes / 8,
        "mapping" => container_bytes / 8,
        "nested_arrays" => container_bytes / 4,
        _ => 0,
    }
}

struct Prog {
    src: String,
    payload: u64,
    elems: u64,
    tags: Vec<&'static str>,
    names: Vec<String>,
}

fn gen_prog(t: &mut Tape) -> Prog {
    let k = 1 + t.below(3);
    let mut decls = vec![];
    let mut payload = 0;
    let mut elems = 0;
    let mut tags = vec![];
    let mut names = vec![];
    for i in 0..k {
        let (src, ty, lb, tag) = gen_builder(t);
        decls.push(format!("let v{i}: {ty} = {src};"));
        payload += lb;
        elems += elems_of(tag, lb);
        tags.push(tag);
        names.push(format!("v{i}"));
    }
    // the same builders once more inside an exported function (run repeatedly)
    let (fsrc, fty, _, ftag) = gen_builder(t);
    tags.push(ftag);
    let fail = match t.below(5) {
        // a run that ends half-way for another reason
        0 => ("fn c1() -> int { let a = range(50).to_array(); a[99] }\n", "error_value"),
        1 => ("fn r(n: int) -> int { if(n <= 0, 0, 1 + r(n - 1)) }\nfn c1() -> int { let a = range(50).to_array(); r(100000) + len(a) }\n", "other_violation"),
        _ => ("fn c1() -> int { 1 }\n", "plain"),
    };
    tags.push(fail.1);
    Prog {
        src: format!("{}\nfn c0() -> {fty} {{ {fsrc} }}\n{}", decls.join("\n"), fail.0),
        payload,
        elems,
        tags,
        names,
    }
}

fn bytes_of(o: &Out) -> Option<u64> {
    match o {
        Out::Counters { bytes, .. } => Some(*bytes),
        _ => None,
    }
}

const HUGE: u64 = 1 << 40;

fn job_for(src: &str, size: u64, depth: Option<u64>) -> Job {
    let mut job = Job::new(src.to_string());
    job.steps = vec![
        Step::TraceStart,           // 0
        Step::Compile { src: 0 },   // 1
        Step::Instantiate,          // 2
        Step::Counters,             // 3: after instantiation
        Step::RunQuiet { name: "c0".into() }, // 4
        Step::Counters,             // 5: the result was dropped
        Step::RunQuiet { name: "c0".into() }, // 6: repeated run on the same runtime
        Step::RunQuiet { name: "c1".into() }, // 7: a run that may end in an error / another violation
        Step::Counters,             // 8
        Step::DropScope,            // 9
        Step::Counters,             // 10: everything dropped
        Step::TraceTake,            // 11
    ];
    job.limits = Limits { size: Some(size), depth, ..Limits::default() };
    job.cpu_s = 30;
    job
}

fn empty_baseline(ctx: &mut Ctx) -> Result<u64, HarnessError> {
    let r = ctx.exec(&job_for("fn c0() -> int { 1 }\nfn c1() -> int { 1 }\n", HUGE, None))?;
    bytes_of(r.step(3)).ok_or_else(|| HarnessError("cannot read the library baseline".into()))
}

/// accounted size of one small int value, read from the interpreter itself
fn int_value_size(ctx: &mut Ctx, lib_base: u64) -> Result<u64, HarnessError> {
    let r = ctx.exec(&job_for("let e0 = 7;\nlet e1 = 8;\nfn c0() -> int { 1 }\nfn c1() -> int { 1 }\n", HUGE, None))?;
    let b = bytes_of(r.step(3)).ok_or_else(|| HarnessError("cannot read the int size".into()))?;
    Ok((b.saturating_sub(lib_base)) / 2)
}

fn run_case(t: &mut Tape, ctx: &mut Ctx) -> Result<CaseOutcome, HarnessError> {
    let p = gen_prog(t);
    let mut o = CaseOutcome {
        key: fnv(p.src.as_bytes()),
        classes: p.tags.iter().map(|s| format!("build:{s}")).collect(),
        ..Default::default()
    };
    let fail = |kind: &str, msg: String, job: &Job| {
        Failure::new(kind, format!("{msg}\n{}", p.src))
            .key("tags", p.tags.join(","))
            .direct(json!({"form": "c09", "job": job, "check": kind}))
    };
    let depth = Some(2000);
    let base_job = job_for(&p.src, HUGE, depth);
    let base = ctx.exec(&base_job)?;
    o.evals += 1;
    if let Some(f) = end_failure(&base) {
        o.failures.push(f.direct(json!({"form": "no_crash", "job": base_job})));
        return Ok(o);
    }
    if !matches!(base.step(1), Out::Done) || !matches!(base.step(2), Out::Done) {
        o.failures.push(fail("unexpected_outcome", format!("the unlimited run did not instantiate: {} / {}", brief(base.step(1)), brief(base.step(2))), &base_job));
        return Ok(o);
    }
    let lib_base = empty_baseline(ctx)?;
    o.evals += 1;
    let (Some(b_inst), Some(b_run), Some(b_runs), Some(b_end)) =
        (bytes_of(base.step(3)), bytes_of(base.step(5)), bytes_of(base.step(8)), bytes_of(base.step(10)))
    else {
        return Ok(o);
    };
    // (b) every live value is accounted for at least its payload: the containers' own bytes
    // plus one int value per separately allocated element
    let int_size = int_value_size(ctx, lib_base)?;
    o.evals += 1;
    let payload = p.payload + p.elems * int_size;
    if b_inst < lib_base + payload {
        o.failures.push(fail(
            "payload_not_accounted",
            format!(
                "after instantiation {b_inst} bytes are accounted; the empty program accounts {lib_base}; the exported values alone hold at least {} payload bytes ({} container/string/bigint bytes + {} int elements of {int_size} bytes)",
                payload, p.payload, p.elems
            ),
            &base_job,
        ));
    }
    // (c) balance: the result of a run is dropped -> back to the level after instantiation,
    // also after repeated runs and after a run that ended in an error / another violation;
    // everything dropped -> zero
    if b_run != b_inst {
        o.failures.push(fail("unbalanced_after_run", format!("accounted bytes: {b_inst} after instantiation, {b_run} after running c0 and dropping its result"), &base_job));
    }
    if b_runs != b_inst {
        o.failures.push(fail(
            "unbalanced_after_runs",
            format!("accounted bytes: {b_inst} after instantiation, {b_runs} after a second run of c0 and a run of c1 ({})", brief(base.step(7))),
            &base_job,
        ));
    }
    if b_end != 0 {
        o.failures.push(fail("unbalanced_at_end", format!("{b_end} bytes still accounted after the evaluation scope was dropped"), &base_job));
    }
    // the allocation trace of the passing run: every running total at which a new maximum is
    // reached is a point where a smaller limit lands its first failure
    let Out::Trace { trace } = base.step(11).clone() else { return Ok(o) };
    let mut maxima: Vec<u64> = vec![];
    let mut cur = 0u64;
    for e in &trace {
        if *e > 0 && (*e as u64) > cur {
            cur = *e as u64;
            maxima.push(cur);
        }
    }
    // the library itself needs lib_base: below that nothing runs
    let mut points: Vec<u64> = maxima.iter().copied().filter(|m| *m > lib_base.saturating_sub(2000)).collect();
    points.dedup();
    let peak = cur;
    // sample at most 40 failure points, always including the first and last few
    if points.len() > 40 {
        let n = points.len();
        let mut keep: Vec<u64> = points[..6].to_vec();
        keep.extend(&points[n - 6..]);
        for _ in 0..28 {
            keep.push(points[t.below(n)]);
        }
        keep.sort();
        keep.dedup();
        points = keep;
    }
    let mut passing_seen = false;
    let mut failure_points = 0;
    for m in points {
        for l in [m - 1, m] {
            let job = job_for(&p.src, l, depth);
            let r = ctx.exec(&job)?;
            o.evals += 1;
            if let Some(f) = end_failure(&r) {
                o.failures.push(f.direct(json!({"form": "no_crash", "job": job})));
                continue;
            }
            let viol = r.steps.iter().any(|s| matches!(s, Out::Violation { v } if v == "AllocationLimitReached"));
            let Out::Trace { trace } = r.step(11).clone() else { continue };
            let over = trace.iter().filter(|e| **e > 0 && **e as u64 > l).count();
            let violating_steps = r.steps.iter().filter(|s| matches!(s, Out::Violation { v } if v == "AllocationLimitReached")).count();
            // (a) the accounted total never exceeds L unless the evaluation ends in the violation:
            // every allocation that lifts the total above L ends its step, so there are at
            // most as many of them as steps that ended in the violation
            if over > violating_steps {
                o.failures.push(fail(
                    "limit_exceeded_silently",
                    format!("size limit {l}: {over} allocations lifted the accounted total above the limit but only {violating_steps} steps ended in AllocationLimitReached"),
                    &job,
                ));
            }
            // (c) balance after a failing run too
            if let Some(b) = bytes_of(r.step(10)) {
                if b != 0 {
                    o.failures.push(fail(
                        "unbalanced_after_violation",
                        format!("size limit {l}: {b} bytes still accounted after everything was dropped (violation seen: {viol})"),
                        &job,
                    ));
                }
            }
            if viol {
                failure_points += 1;
                // (d) upward closed: once a limit passes, no larger one fails
                if passing_seen {
                    o.failures.push(fail("not_upward_closed", format!("size limit {l} fails although a smaller limit passed"), &job));
                }
            } else {
                passing_seen = true;
                // a passing run gives what the unlimited run gives
                for i in [4usize, 6, 7] {
                    if r.step(i) != base.step(i) {
                        o.failures.push(fail(
                            "limit_changed_result",
                            format!("size limit {l}: step {i} is {} but {} without a limit", brief(r.step(i)), brief(base.step(i))),
                            &job,
                        ));
                    }
                }
            }
            for s in &r.steps {
                if let Out::Panic { msg, loc } = s {
                    o.failures.push(fail("panic", format!("size limit {l}: panic {msg} at {loc}"), &job));
                }
            }
        }
    }
    // far above the peak (pre-flight estimates included) the run must pass
    {
        let job = job_for(&p.src, peak * 4 + (1 << 20), depth);
        let r = ctx.exec(&job)?;
        o.evals += 1;
        if r.steps.iter().any(|s| matches!(s, Out::Violation { v } if v == "AllocationLimitReached")) {
            o.failures.push(fail("not_upward_closed", format!("a size limit far above the peak of the unlimited run ({peak}) fails"), &job));
        }
    }
    o.nontrivial = failure_points >= 2;
    o.classes.push(format!("failure_points:{}", if failure_points >= 10 { "10+" } else if failure_points >= 2 { "2-9" } else { "0-1" }));
    o.sample = Some(json!({
        "program": p.src, "payload_lower_bound": p.payload, "library_baseline": lib_base,
        "accounted_after_instantiate": b_inst, "peak": peak, "allocations": trace.iter().filter(|e| **e > 0).count(),
        "limit_runs": o.evals, "runs_ending_in_the_violation": failure_points, "values": p.names,
    }));
    Ok(o)
}

impl Property for C09 {
    fn id(&self) -> &'static str {
        "C09"
    }
    fn level(&self) -> &'static str {
        "fault_enumeration"
    }
    fn rule(&self) -> String {
        "A program of 1-3 exported values and an exported function built from 16 builders (big ints, repeated and joined strings, arrays, forced lazy sequences, stacks, sets and mappings incl. ones whose hash collides, tuples, closures, optionals, nested arrays, sorted arrays), plus a second function that ends in an error value or in another violation. With the allocation-trace hook the running accounted total of an unlimited run gives every point where a new maximum is reached; the size limit is then set to each such value and to the value minus one (at most 40 points sampled, first and last always), so the allocation failure lands on every distinct allocation point. Oracle: (a) a total above L only together with AllocationLimitReached; (b) accounted bytes after instantiation >= library baseline + payload lower bound of the exported values; (c) bytes return to the post-instantiation level after each run (repeated runs, runs ending in an error or another violation) and to zero when the scope is dropped, also after every failing run; (d) once a swept limit passes every larger one passes (pre-flight estimates may be pessimistic but must be monotone), a limit far above the peak passes, passing results equal the unlimited ones, no panic. Non-trivial = at least 2 of the swept limits ended in the violation. Distinct by source.".into()
    }
    fn assumptions(&self) -> Vec<String> {
        vec![
            "payload lower bounds: 8 bytes per array/stack/set element, 16 per mapping entry, 1 byte per string byte, bits/8 per big integer".into(),
            "accounting is only active when a size limit is set: the 'unlimited' run uses a limit of 2^40".into(),
        ]
    }
    fn families(&self, tier: Tier) -> Vec<Family> {
        let k = if tier == Tier::Quick { 1 } else { 20 };
        vec![Family {
            name: "accounting",
            batches: 56 * k,
            batch_size: 1,
            tape_len: 60,
        }]
    }
    fn run_batch(&self, _family: &str, subs: &[Vec<u8>], ctx: &mut Ctx) -> Result<Vec<CaseOutcome>, HarnessError> {
        let mut outs = vec![];
        for s in subs {
            let mut t = Tape::new(s);
            outs.push(run_case(&mut t, ctx)?);
        }
        Ok(outs)
    }
    fn check_direct(&self, direct: &Value, ctx: &mut Ctx) -> Result<Option<Failure>, HarnessError> {
        if direct["form"].as_str() != Some("c09") {
            return crate::direct::check_generic(direct, ctx);
        }
        let job: Job = serde_json::from_value(direct["job"].clone()).map_err(|e| HarnessError(e.to_string()))?;
        let r = ctx.exec(&job)?;
        if let Some(f) = end_failure(&r) {
            return Ok(Some(f.direct(direct.clone())));
        }
        let l = job.limits.size.unwrap_or(HUGE);
        let viol = r.steps.iter().any(|s| matches!(s, Out::Violation { v } if v == "AllocationLimitReached"));
        let over = match r.step(11) {
            Out::Trace { trace } => trace.iter().filter(|e| **e > 0 && **e as u64 > l).count(),
            _ => 0,
        };
        let violating_steps = r.steps.iter().filter(|s| matches!(s, Out::Violation { v } if v == "AllocationLimitReached")).count();
        let bad = match direct["check"].as_str().unwrap_or("") {
            "limit_exceeded_silently" => over > violating_steps,
            "unbalanced_at_end" | "unbalanced_after_violation" => bytes_of(r.step(10)).map_or(false, |b| b != 0),
            "unbalanced_after_run" => bytes_of(r.step(3)) != bytes_of(r.step(5)),
            "unbalanced_after_runs" => bytes_of(r.step(3)) != bytes_of(r.step(8)),
            "panic" => r.steps.iter().any(|s| s.is_panic()),
            _ => false,
        };
        Ok(if bad {
            Some(Failure::new(direct["check"].as_str().unwrap_or("c09"), "still fails").direct(direct.clone()))
        } else {
            None
        })
    }
}
