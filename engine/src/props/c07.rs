//! C07 — tail-call optimisation is semantically transparent.
use crate::direct::{end_failure, make_direct};
use crate::dump::*;
use crate::expect::{brief, satisfied, Expect};
use crate::pool::HarnessError;
use crate::proto::*;
use crate::runner::*;
use crate::tape::{fnv, Tape};
use serde_json::{json, Value};

pub struct C07;

/// a recursive function template: source of the declarations, the call expression for n,
/// its result type and the expected result as a function of n
struct Tpl {
    name: &'static str,
    tail: bool,
    /// declarations; `{W0}`/`{W1}` are replaced by the opening/closing text of wrappers
    decl: &'static str,
    call: &'static str,
    ret: &'static str,
    result: fn(i64) -> Value,
    /// frames per iteration for non-tail placements (None = not a plain multiple)
    frames: Option<i64>,
}

fn tri(n: i64) -> Value {
    d_i64(n * (n + 1) / 2)
}

const TEMPLATES: &[Tpl] = &[
    // ---------------- tail positions (documented carriers)
    Tpl { name: "if_else", tail: true, decl: "fn f(n: int, acc: int) -> int { {W0}if(n <= 0, acc, f(n - 1, acc + n)){W1} }", call: "f({n}, 0)", ret: "int", result: tri, frames: None },
    Tpl { name: "if_then", tail: true, decl: "fn f(n: int, acc: int) -> int { {W0}if(n > 0, f(n - 1, acc + n), acc){W1} }", call: "f({n}, 0)", ret: "int", result: tri, frames: None },
    Tpl { name: "if_error2", tail: true, decl: "fn f(n: int, acc: int) -> int { {W0}if_error(if(n > 0, error(\"go\"), acc), f(n - 1, acc + n)){W1} }", call: "f({n}, 0)", ret: "int", result: tri, frames: None },
    Tpl { name: "if_error3", tail: true, decl: "fn f(n: int, acc: int) -> int { {W0}if_error(if(n > 0, error(\"go on\"), acc), \"go\", f(n - 1, acc + n)){W1} }", call: "f({n}, 0)", ret: "int", result: tri, frames: None },
    Tpl { name: "bool_or", tail: true, decl: "fn f(n: int) -> bool { n <= 0 || f(n - 1) }", call: "f({n})", ret: "bool", result: |_| d_bool(true), frames: None },
    Tpl { name: "bool_and", tail: true, decl: "fn f(n: int) -> bool { n > 0 && f(n - 1) }", call: "f({n})", ret: "bool", result: |_| d_bool(false), frames: None },
    Tpl { name: "opt_or_unwrap", tail: true, decl: "fn f(n: int, acc: int) -> int { {W0}or(then(n <= 0, acc), f(n - 1, acc + n)){W1} }", call: "f({n}, 0)", ret: "int", result: tri, frames: None },
    Tpl { name: "opt_or", tail: true, decl: "fn f(n: int, acc: int) -> Optional<int> { or(then(n <= 0, acc), f(n - 1, acc + n)) }", call: "f({n}, 0)", ret: "Optional<int>", result: |n| d_opt(Some(tri(n))), frames: None },
    Tpl { name: "opt_and", tail: true, decl: "fn f(n: int, acc: int) -> Optional<int> { and(then(n > 0, 0), f(n - 1, acc + n)) }", call: "f({n}, 0)", ret: "Optional<int>", result: |_| d_opt(None), frames: None },
    Tpl { name: "map_or_default", tail: true, decl: "fn f(n: int, acc: int) -> int { {W0}map_or(then(n <= 0, acc), (x: int) -> { x }, f(n - 1, acc + n)){W1} }", call: "f({n}, 0)", ret: "int", result: tri, frames: None },
    Tpl { name: "to_str_str", tail: true, decl: "fn f(n: int) -> str { to_str(if(n <= 0, \"done\", f(n - 1))) }", call: "f({n})", ret: "str", result: |_| d_str("done"), frames: None },
    Tpl { name: "optional_params", tail: true, decl: "fn f(n: int, acc: int ?= 0, step: int ?= 1) -> int { {W0}if(n <= 0, acc, f(n - step, acc + n)){W1} }", call: "f({n})", ret: "int", result: tri, frames: None },
    Tpl { name: "tuple_acc", tail: true, decl: "fn f(n: int, acc: (int, str)) -> (int, str) { if(n <= 0, acc, f(n - 1, (acc::item0 + n, acc::item1))) }", call: "f({n}, (0, \"t\"))", ret: "(int, str)", result: |n| d_tuple(vec![tri(n), d_str("t")]), frames: None },
    // ---------------- not tail positions: must consume stack depth, must not be optimised
    Tpl { name: "under_operator", tail: false, decl: "fn f(n: int, acc: int) -> int { if(n <= 0, acc, f(n - 1, acc + n) + 0) }", call: "f({n}, 0)", ret: "int", result: tri, frames: Some(1) },
    Tpl { name: "builtin_argument", tail: false, decl: "fn f(n: int, acc: int) -> int { if(n <= 0, acc, neg(neg(f(n - 1, acc + n)))) }", call: "f({n}, 0)", ret: "int", result: tri, frames: Some(1) },
    Tpl { name: "array_element", tail: false, decl: "fn f(n: int, acc: int) -> int { if(n <= 0, acc, [f(n - 1, acc + n)][0]) }", call: "f({n}, 0)", ret: "int", result: tri, frames: Some(1) },
    Tpl { name: "tuple_member", tail: false, decl: "fn f(n: int, acc: int) -> int { if(n <= 0, acc, (f(n - 1, acc + n), 1)::item0) }", call: "f({n}, 0)", ret: "int", result: tri, frames: Some(1) },
    Tpl { name: "carrier_condition", tail: false, decl: "fn f(n: int) -> bool { if(if(n <= 0, true, f(n - 1)), true, false) }", call: "f({n})", ret: "bool", result: |_| d_bool(true), frames: Some(1) },
    Tpl { name: "alias_copy", tail: false, decl: "fn f(n: int, acc: int) -> int { let g = f; if(n <= 0, acc, g(n - 1, acc + n)) }", call: "f({n}, 0)", ret: "int", result: tri, frames: Some(1) },
    Tpl { name: "argument_of_user_fn", tail: false, decl: "fn id(x: int) -> int { x }\nfn f(n: int, acc: int) -> int { if(n <= 0, acc, id(f(n - 1, acc + n))) }", call: "f({n}, 0)", ret: "int", result: tri, frames: Some(1) },
    Tpl { name: "let_before_result", tail: false, decl: "fn f(n: int, acc: int) -> int { let r = if(n <= 0, acc, f(n - 1, acc + n)); r }", call: "f({n}, 0)", ret: "int", result: tri, frames: Some(1) },
    Tpl { name: "inside_lambda", tail: false, decl: "fn f(n: int, acc: int) -> int { if(n <= 0, acc, ((x: int) -> { f(x, acc + n) })(n - 1)) }", call: "f({n}, 0)", ret: "int", result: tri, frames: Some(2) },
    Tpl { name: "captured_in_inner_fn", tail: false, decl: "fn f(n: int, acc: int) -> int { fn inner(x: int) -> int { f(x, acc + n) } if(n <= 0, acc, inner(n - 1)) }", call: "f({n}, 0)", ret: "int", result: tri, frames: Some(2) },
    // the handled argument of an error handler is not a tail position: the handler must still run
    Tpl { name: "handled_argument_if_error2", tail: false, decl: "fn f(n: int) -> int { if(n <= 0, error(\"bottom\"), if_error(f(n - 1), n)) }", call: "if_error(f({n}), -7)", ret: "int", result: |n| if n <= 0 { d_i64(-7) } else { d_i64(1) }, frames: Some(1) },
    Tpl { name: "handled_argument_if_error3", tail: false, decl: "fn f(n: int) -> int { if(n <= 0, error(\"bottom\"), if_error(f(n - 1), \"bott\", n)) }", call: "if_error(f({n}), -7)", ret: "int", result: |n| if n <= 0 { d_i64(-7) } else { d_i64(1) }, frames: Some(1) },
    Tpl { name: "handled_argument_is_error", tail: false, decl: "fn f(n: int) -> bool { if(n <= 0, error(\"bottom\"), is_error(f(n - 1))) }", call: "if_error(f({n}), false)", ret: "bool", result: |n| d_bool(n == 1), frames: Some(1) },
    Tpl { name: "mutual_recursion", tail: false, decl: "forward fn g(n: int, acc: int) -> int;\nfn f(n: int, acc: int) -> int { if(n <= 0, acc, g(n - 1, acc + n)) }\nfn g(n: int, acc: int) -> int { if(n <= 0, acc, f(n - 1, acc + n)) }", call: "f({n}, 0)", ret: "int", result: tri, frames: Some(1) },
];

/// wrappers that keep the tail position (documented carriers), nested around the body
const WRAPPERS: &[(&str, &str)] = &[
    ("", ""),
    ("cast<int>(", ")"),
    ("and((), ", ")"),
    ("if(true, ", ", acc)"),
    ("if(false, acc, ", ")"),
    ("if_error(error(\"x\"), ", ")"),
];

fn violation(v: &str) -> Expect {
    Expect::Violation { v: v.into() }
}

struct Probe {
    limits: Limits,
    expect: Expect,
    what: String,
}

fn run_case(t: &mut Tape, ctx: &mut Ctx) -> Result<CaseOutcome, HarnessError> {
    let tpl = t.pick(TEMPLATES);
    let n: i64 = if tpl.tail {
        *t.pick(&[0, 1, 2, 3, 10, 100, 1000, 10_000, 100_000, 7, 50, 2_500])
    } else {
        *t.pick(&[0, 1, 2, 3, 10, 100, 300, 1000, 7, 50])
    };
    // 0-3 nested carriers around the body where the template allows it
    let mut w0 = String::new();
    let mut w1 = String::new();
    let mut nest = 0;
    if tpl.decl.contains("{W0}") {
        nest = t.below(4);
        for _ in 0..nest {
            let (a, b) = *t.pick(WRAPPERS);
            w0 = format!("{w0}{a}");
            w1 = format!("{b}{w1}");
        }
    }
    let decl = tpl.decl.replace("{W0}", &w0).replace("{W1}", &w1);
    let call = tpl.call.replace("{n}", &n.to_string());
    let src = format!("{decl}\nfn c0() -> {} {{ {call} }}\n", tpl.ret);
    let value = Expect::Dump { dump: (tpl.result)(n) };
    let mut probes: Vec<Probe> = vec![];
    let lim = |depth: Option<u64>, rec: Option<u64>| Limits {
        depth,
        recursion: rec,
        ..Limits::default()
    };
    if tpl.tail {
        // c0 is one frame, f another, a lambda called in the base case a third: depth 4 is enough whatever n
        probes.push(Probe { limits: lim(Some(4), None), expect: value.clone(), what: "depth limit 4, no recursion limit".into() });
        probes.push(Probe { limits: lim(None, None), expect: value.clone(), what: "no limits".into() });
        if n >= 1 {
            // n tail iterations: allowed iff recursion_limit >= n
            probes.push(Probe { limits: lim(Some(4), Some(n as u64)), expect: value.clone(), what: format!("recursion limit {n} = iterations") });
            probes.push(Probe {
                limits: lim(Some(4), Some(n as u64 - 1)),
                expect: violation("MaximumRecursion"),
                what: format!("recursion limit {} = iterations - 1", n - 1),
            });
        }
        probes.push(Probe { limits: lim(Some(4), Some(n as u64 + 5)), expect: value.clone(), what: "recursion limit above iterations".into() });
    } else {
        probes.push(Probe { limits: lim(None, None), expect: value.clone(), what: "no limits".into() });
        // a recursion limit must not matter: nothing here is a tail self-call
        probes.push(Probe { limits: lim(None, Some(1)), expect: value.clone(), what: "recursion limit 1 (must be irrelevant)".into() });
        if let Some(fr) = tpl.frames {
            // frames in use at the deepest point: c0 + (n + 1) activations of f (+ helpers)
            let deepest = 1 + fr * n + 1;
            // violation iff the nesting reaches the limit
            probes.push(Probe { limits: lim(Some(deepest as u64 + 1), None), expect: value.clone(), what: format!("depth limit {} = deepest + 1", deepest + 1) });
            if fr == 1 {
                probes.push(Probe { limits: lim(Some(deepest as u64), None), expect: violation("MaximumStackDepth"), what: format!("depth limit {deepest} = deepest frame") });
            }
            if n >= 10 {
                probes.push(Probe { limits: lim(Some(6), None), expect: violation("MaximumStackDepth"), what: "depth limit 6 with n >= 10: a wrongly optimised call would pass".into() });
            }
        }
    }
    let key = fnv(src.as_bytes());
    let mut o = CaseOutcome {
        key,
        nontrivial: n >= 100 || nest >= 2 || !tpl.tail,
        classes: vec![
            format!("tpl:{}", tpl.name),
            if tpl.tail { "tail".into() } else { "non_tail".into() },
            format!("n:{}", if n >= 1000 { "large" } else if n >= 10 { "medium" } else { "small" }),
            format!("nest:{nest}"),
        ],
        ..Default::default()
    };
    let mut observed = vec![];
    for p in &probes {
        let mut job = Job::new(src.clone()).run("c0");
        job.limits = p.limits.clone();
        job.cpu_s = 30;
        let reply = ctx.exec(&job)?;
        o.evals += 1;
        let fkeys = |f: Failure| f.key("tpl", tpl.name).key("tail", tpl.tail.to_string()).key("probe", p.what.clone());
        if let Some(f) = end_failure(&reply) {
            o.failures.push(fkeys(f.direct(make_direct(&job, &[(2, p.expect.clone())]))));
            continue;
        }
        let out = if matches!(reply.step(0), Out::Done) && matches!(reply.step(1), Out::Done) {
            reply.step(2).clone()
        } else if !matches!(reply.step(0), Out::Done) {
            reply.step(0).clone()
        } else {
            reply.step(1).clone()
        };
        observed.push(json!({"probe": p.what, "observed": brief(&out)}));
        if !satisfied(&p.expect, &out) {
            let kind = if out.is_panic() { "panic" } else { "wrong_outcome" };
            o.failures.push(fkeys(
                Failure::new(
                    kind,
                    format!(
                        "template {} ({}), n = {n}, {}\n  source:\n{src}  expected: {}\n  observed: {}",
                        tpl.name,
                        if tpl.tail { "tail position" } else { "not a tail position" },
                        p.what,
                        serde_json::to_string(&p.expect).unwrap_or_default(),
                        brief(&out)
                    ),
                )
                .direct(make_direct(&job, &[(2, p.expect.clone())])),
            ));
        }
    }
    o.sample = Some(json!({"template": tpl.name, "n": n, "wrappers": format!("{w0}…{w1}"), "probes": observed}));
    Ok(o)
}

impl Property for C07 {
    fn id(&self) -> &'static str {
        "C07"
    }
    fn rule(&self) -> String {
        "A recursive function from 24 placement templates - the self-call in tail position directly or as the selected branch of each documented carrier (if both branches, if_error 2/3, bool and/or, cast, optional or/and/map_or, tuple and, to_str on str; optional parameters; tuple accumulators), nested under 0-3 further carriers; or in a non-tail position (under an operator, builtin argument, array/tuple construction, condition of a carrier, alias, argument of another user function, let before the result, inside a lambda, captured by an inner function, mutual recursion) - with n in {0..10^5}, run under several limit configurations. Oracle: the closed-form result; tail placements succeed under depth limit 4 for any n and end in MaximumRecursion exactly when the recursion limit is below n; non-tail placements are unaffected by a recursion limit and end in MaximumStackDepth exactly when the nesting reaches the depth limit. Non-trivial = n >= 100, or >= 2 nested carriers, or a non-tail placement. Distinct by source.".into()
    }
    fn families(&self, tier: Tier) -> Vec<Family> {
        let k = if tier == Tier::Quick { 1 } else { 20 };
        vec![Family {
            name: "placements",
            batches: 520 * k,
            batch_size: 1,
            tape_len: 24,
        }]
    }
    fn run_batch(&self, _family: &str, subs: &[Vec<u8>], ctx: &mut Ctx) -> Result<Vec<CaseOutcome>, HarnessError> {
        let mut outs = vec![];
        for s in subs {
            let mut t = Tape::new(s);
            outs.push(run_case(&mut t, ctx)?);
        }
        Ok(outs)
    }
}
