//! C05 — overload resolution is ranked, unambiguous and stable.
//!
//! A case is a set of same-named user overloads declared at two nesting levels inside a case
//! function (so that nothing leaks between cases), plus a call with fully known argument
//! types.  Every overload returns its own tag.  The outcome (tag / AmbiguousOverload /
//! NoOverload) is compared with the documented ranking computed by R-type, and with the
//! outcomes of metamorphic variants: permuted declaration order, renamed generic and value
//! parameters, added overloads that do not match the call.
use crate::direct::end_failure;
use crate::gstd::{Lib, Ty};
use crate::pool::HarnessError;
use crate::proto::*;
use crate::rtype::*;
use crate::runner::*;
use crate::tape::{fnv, Tape};
use serde_json::{json, Value};
use std::collections::HashMap;

pub struct C05;

fn nat(n: &str, a: Vec<Ty>) -> Ty {
    Ty::Native(n.into(), a)
}
fn st(n: &str) -> Ty {
    Ty::Compound("struct".into(), n.into(), vec![])
}
fn var(n: &str) -> Ty {
    Ty::Var(n.into())
}

#[derive(Clone, Debug)]
struct Ov {
    generics: Vec<String>,
    /// (type, default expression)
    params: Vec<(Ty, Option<String>)>,
    /// 0 = body of the case function, 1 = body of the inner function
    level: u8,
    tag: i64,
}

#[derive(Clone, Debug)]
struct Case {
    name: String,
    ovs: Vec<Ov>,
    args: Vec<Ty>,
}

/// closed value of a concrete type
fn value(t: &Ty) -> Option<String> {
    Some(match t {
        Ty::Int => "7".into(),
        Ty::Str => "\"s\"".into(),
        Ty::Float => "1.5".into(),
        Ty::Bool => "true".into(),
        Ty::Compound(_, n, a) if a.is_empty() && n == "P" => "P(1)".into(),
        Ty::Compound(_, n, a) if a.is_empty() && n == "Q" => "Q(\"q\")".into(),
        Ty::Native(n, a) => match (n.as_str(), a.as_slice()) {
            ("Sequence", [x]) => format!("[{}]", value(x)?),
            ("Optional", [x]) => format!("some({})", value(x)?),
            ("Stack", [x]) => format!("stack().push({})", value(x)?),
            ("Mapping", [Ty::Int, v]) => format!("mapping<int>().set(1, {})", value(v)?),
            _ => return None,
        },
        Ty::Tuple(a) => {
            let parts: Option<Vec<String>> = a.iter().map(value).collect();
            let parts = parts?;
            match parts.len() {
                0 => "()".into(),
                1 => format!("({},)", parts[0]),
                _ => format!("({})", parts.join(", ")),
            }
        }
        Ty::Callable(ps, r) => {
            let params: Vec<String> = ps.iter().enumerate().map(|(i, p)| format!("z{i}: {}", p.src())).collect();
            format!("({}) -> {{ {} }}", params.join(", "), value(r)?)
        }
        _ => return None,
    })
}

fn arg_types() -> Vec<Ty> {
    vec![
        Ty::Int,
        Ty::Str,
        Ty::Float,
        Ty::Bool,
        st("P"),
        st("Q"),
        nat("Sequence", vec![Ty::Int]),
        nat("Sequence", vec![Ty::Str]),
        nat("Sequence", vec![st("P")]),
        nat("Optional", vec![Ty::Int]),
        nat("Optional", vec![st("P")]),
        nat("Stack", vec![Ty::Int]),
        nat("Mapping", vec![Ty::Int, Ty::Str]),
        Ty::Tuple(vec![Ty::Int, Ty::Int]),
        Ty::Tuple(vec![Ty::Int, Ty::Str]),
        Ty::Tuple(vec![st("P"), st("P")]),
        nat("Sequence", vec![nat("Sequence", vec![Ty::Int])]),
        Ty::Callable(vec![Ty::Int], Box::new(Ty::Int)),
        Ty::Callable(vec![Ty::Int], Box::new(Ty::Str)),
    ]
}

/// generic parameter patterns (over T and U)
fn patterns() -> Vec<Ty> {
    let t = || var("T");
    let u = || var("U");
    vec![
        t(),
        u(),
        nat("Sequence", vec![t()]),
        nat("Optional", vec![t()]),
        nat("Stack", vec![t()]),
        Ty::Tuple(vec![t(), t()]),
        Ty::Tuple(vec![t(), u()]),
        nat("Mapping", vec![Ty::Int, t()]),
        nat("Sequence", vec![nat("Sequence", vec![t()])]),
        Ty::Callable(vec![t()], Box::new(u())),
        Ty::Callable(vec![Ty::Int], Box::new(t())),
        Ty::Tuple(vec![Ty::Int, t()]),
    ]
}

/// names the standard library also overloads (its candidates take part in the resolution)
const STD_NAMES: &[&str] = &["add", "len", "get", "to_str", "eq", "max", "contains", "push", "mul", "neg", "map", "hash", "cmp"];

fn gen_case(t: &mut Tape) -> Case {
    let name = if t.below(3) == 0 { t.pick(STD_NAMES).to_string() } else { "f".to_string() };
    // the witness expressions of stacks and mappings call push / set / hash / eq themselves: with a
    // library name the user's overloads would take part in those calls too
    let library = name != "f";
    let uses_lib = |t: &Ty| {
        let s = t.src();
        s.contains("Stack") || s.contains("Mapping")
    };
    let pool: Vec<Ty> = arg_types().into_iter().filter(|t| !(library && uses_lib(t))).collect();
    let pats: Vec<Ty> = patterns().into_iter().filter(|t| !(library && uses_lib(t))).collect();
    let nargs = match t.below(8) {
        0 => 0,
        1 | 2 | 3 => 1,
        4 | 5 | 6 => 2,
        _ => 3,
    };
    let args: Vec<Ty> = (0..nargs).map(|_| t.pick(&pool).clone()).collect();
    let n_ov = 1 + t.below(6);
    let mut ovs: Vec<Ov> = vec![];
    for k in 0..n_ov {
        // most overloads are built around the call so that several candidates compete
        let around = t.below(4) != 0;
        let np = if around {
            let d = t.below(4);
            if d == 0 && nargs > 0 {
                nargs - 1
            } else if d == 1 {
                nargs + 1
            } else {
                nargs
            }
        } else {
            t.below(4)
        };
        let mut params: Vec<(Ty, Option<String>)> = vec![];
        let mut generics: Vec<String> = vec![];
        for i in 0..np {
            let ty = match t.below(6) {
                // a parameter beyond the call's arguments: often a generic container (made optional below)
                0 | 1 if i >= nargs => Ty::Native(if t.bool() { "Sequence".into() } else { "Optional".into() }, vec![if t.bool() { var("T") } else { var("U") }]),
                0 | 1 if around && i < nargs => args[i].clone(),
                2 if around && i < nargs => {
                    // a generic pattern that may or may not fit the argument
                    generalize(&args[i], t)
                }
                3 => t.pick(&pats).clone(),
                _ => t.pick(&pool).clone(),
            };
            params.push((ty, None));
        }
        for (ty, _) in &params {
            vars_of(ty, &mut generics);
        }
        // trailing optional parameters (concrete types only)
        let mut n_opt = t.below(3);
        for i in (0..params.len()).rev() {
            if n_opt == 0 {
                break;
            }
            let mut vs = vec![];
            vars_of(&params[i].0, &mut vs);
            if !vs.is_empty() {
                // a generic parameter can be optional when a bottom-typed default exists; a call
                // that omits it leaves the generic unbound (the overload still ranks as generic)
                let d = match &params[i].0 {
                    Ty::Native(n, a) if n == "Sequence" && matches!(a.as_slice(), [Ty::Var(_)]) => "[]",
                    Ty::Native(n, a) if n == "Optional" && matches!(a.as_slice(), [Ty::Var(_)]) => "none()",
                    _ => break,
                };
                params[i].1 = Some(d.into());
                n_opt -= 1;
                continue;
            }
            match value(&params[i].0) {
                Some(v) => params[i].1 = Some(v),
                None => break,
            }
            n_opt -= 1;
        }
        generics.sort();
        let o = Ov { generics, params, level: t.below(2) as u8, tag: 100 + k as i64 };
        // identical parameter lists are not judged (undocumented): keep them rare
        if ovs.iter().any(|e| sig_key(e) == sig_key(&o)) && t.below(8) != 0 {
            continue;
        }
        ovs.push(o);
    }
    Case { name, ovs, args }
}

/// replace a random subtree of a concrete type by a generic variable
fn generalize(ty: &Ty, t: &mut Tape) -> Ty {
    let v = if t.bool() { var("T") } else { var("U") };
    match ty {
        Ty::Native(n, a) if t.bool() => Ty::Native(n.clone(), a.iter().map(|x| generalize(x, t)).collect()),
        Ty::Tuple(a) if t.bool() => Ty::Tuple(a.iter().map(|x| if t.bool() { generalize(x, t) } else { x.clone() }).collect()),
        Ty::Callable(p, r) if t.bool() => Ty::Callable(p.clone(), Box::new(generalize(r, t))),
        _ => v,
    }
}

fn sig_key(o: &Ov) -> String {
    // signatures equal up to renaming of generics and ignoring defaults
    let mut names: Vec<String> = vec![];
    o.params.iter().for_each(|(p, _)| vars_of(p, &mut names));
    let b: HashMap<String, Ty> = names.iter().enumerate().map(|(i, n)| (n.clone(), var(&format!("G{i}")))).collect();
    o.params.iter().map(|(p, _)| p.subst(&b).src()).collect::<Vec<_>>().join(",")
}

fn matches(o: &Ov, args: &[Ty]) -> bool {
    let min = o.params.iter().take_while(|(_, d)| d.is_none()).count();
    if args.len() < min || args.len() > o.params.len() {
        return false;
    }
    let mut b = HashMap::new();
    o.params.iter().zip(args).all(|((p, _), a)| assign(p, a, &o.generics, &mut b))
}

#[derive(Clone, Debug, PartialEq)]
enum Outcome {
    Tag(i64),
    Ambiguous,
    NoOverload,
    /// the standard library's candidates decide, or the documentation does not say
    Unjudged(&'static str),
}

fn expected(case: &Case, ovs: &[Ov], lib: &Lib) -> Outcome {
    let exact: Vec<&Ov> = ovs.iter().filter(|o| o.generics.is_empty() && matches(o, &case.args)).collect();
    let generic: Vec<&Ov> = ovs.iter().filter(|o| !o.generics.is_empty() && matches(o, &case.args)).collect();
    // identical signatures at different levels: does the inner one shadow the outer one?  not documented
    let mut keys: Vec<String> = ovs.iter().map(sig_key).collect();
    keys.sort();
    if keys.windows(2).any(|w| w[0] == w[1]) {
        return Outcome::Unjudged("identical signatures");
    }
    let (mut std_exact, mut std_generic, mut std_dynamic) = (0, 0, false);
    if case.name != "f" {
        for f in lib.fns.iter().filter(|f| f.name == case.name) {
            let min = f.params.iter().take_while(|(_, req)| *req).count();
            if case.args.len() < min || case.args.len() > f.params.len() {
                continue;
            }
            let mut b = HashMap::new();
            if f.params.iter().zip(&case.args).all(|((p, _), a)| assign(p, a, &f.generics, &mut b)) {
                if f.generics.is_empty() {
                    std_exact += 1
                } else {
                    std_generic += 1
                }
            }
        }
        std_dynamic = lib.dynamic.iter().any(|d| d == &case.name);
    }
    if exact.len() + std_exact > 1 {
        return Outcome::Ambiguous;
    }
    if exact.len() == 1 {
        return Outcome::Tag(exact[0].tag);
    }
    if std_exact == 1 {
        return Outcome::Unjudged("library overload wins");
    }
    if generic.len() + std_generic > 1 {
        return if std_generic == 0 { Outcome::Ambiguous } else { Outcome::Unjudged("library generic competes") };
    }
    if generic.len() == 1 {
        return Outcome::Tag(generic[0].tag);
    }
    if std_generic == 1 {
        return Outcome::Unjudged("library overload wins");
    }
    if std_dynamic {
        return Outcome::Unjudged("dynamic library overload may match");
    }
    Outcome::NoOverload
}

fn render_ov(name: &str, o: &Ov, rename: bool) -> String {
    let (gmap, pprefix): (HashMap<String, Ty>, &str) = if rename {
        (o.generics.iter().enumerate().map(|(i, g)| (g.clone(), var(&format!("R{}{}", o.tag, i)))).collect(), "q")
    } else {
        (HashMap::new(), "a")
    };
    let gens: Vec<String> = o.generics.iter().map(|g| gmap.get(g).map_or(g.clone(), |t| t.src())).collect();
    let g = if gens.is_empty() { String::new() } else { format!("<{}>", gens.join(", ")) };
    let ps: Vec<String> = o
        .params
        .iter()
        .enumerate()
        .map(|(i, (t, d))| match d {
            Some(d) => format!("{pprefix}{i}: {} ?= {d}", t.subst(&gmap).src()),
            None => format!("{pprefix}{i}: {}", t.subst(&gmap).src()),
        })
        .collect();
    format!("fn {name}{g}({}) -> int {{ {} }}", ps.join(", "), o.tag)
}

fn render(case: &Case, ovs: &[Ov], rename: bool, fname: &str) -> Option<String> {
    let args: Option<Vec<String>> = case.args.iter().map(value).collect();
    let args = args?;
    let mut s = format!("fn {fname}() -> int {{\n  struct P(v: int)\n  struct Q(v: str)\n");
    for o in ovs.iter().filter(|o| o.level == 0) {
        s.push_str(&format!("  {}\n", render_ov(&case.name, o, rename)));
    }
    s.push_str("  fn inner() -> int {\n");
    for o in ovs.iter().filter(|o| o.level == 1) {
        s.push_str(&format!("    {}\n", render_ov(&case.name, o, rename)));
    }
    s.push_str(&format!("    {}({})\n  }}\n  inner()\n}}\n", case.name, args.join(", ")));
    Some(s)
}

fn observed(compile: &Out, run: &Out) -> (String, Option<Outcome>) {
    match compile {
        Out::CompileError { class, text } => {
            let o = match class.as_str() {
                "AmbiguousOverload" => Some(Outcome::Ambiguous),
                "NoOverload" => Some(Outcome::NoOverload),
                _ => None,
            };
            (format!("compile error [{class}] {}", text.lines().last().unwrap_or("").chars().take(200).collect::<String>()), o)
        }
        Out::Done => match run {
            Out::Value { dump } => match dump["i"].as_str().and_then(|s| s.parse::<i64>().ok()).or_else(|| dump["i"].as_i64()) {
                Some(k) => (format!("ran overload {k}"), Some(Outcome::Tag(k))),
                None => (format!("value {dump}"), None),
            },
            other => (crate::expect::brief(other), None),
        },
        other => (crate::expect::brief(other), None),
    }
}

struct Variant {
    what: &'static str,
    src: String,
    fname: String,
}

fn run_cases(cases: &[Case], subs: &[Vec<u8>], ctx: &mut Ctx) -> Result<Vec<CaseOutcome>, HarnessError> {
    let lib = super::c13::lib(ctx)?;
    let mut job = Job::new("");
    job.srcs = vec![];
    job.steps = vec![];
    let mut plans: Vec<(Outcome, Vec<(Variant, usize, usize)>)> = vec![];
    for (ci, (case, sub)) in cases.iter().zip(subs).enumerate() {
        let exp = expected(case, &case.ovs, lib);
        let mut t = Tape::new(sub);
        // skip the part of the tape used by the generator (approximately): variants use a hash instead
        let seed = fnv(sub);
        let _ = &mut t;
        let mut variants: Vec<Variant> = vec![];
        let mut push = |what: &'static str, ovs: &[Ov], rename: bool, variants: &mut Vec<Variant>| {
            let fname = format!("c{ci}_{}", variants.len());
            if let Some(src) = render(case, ovs, rename, &fname) {
                variants.push(Variant { what, src, fname });
            }
        };
        push("base", &case.ovs, false, &mut variants);
        if variants.is_empty() {
            plans.push((exp, vec![]));
            continue;
        }
        // permutations: reversed, rotated, and a pseudo-random one
        let n = case.ovs.len();
        if n > 1 {
            let mut rev = case.ovs.clone();
            rev.reverse();
            push("reversed", &rev, false, &mut variants);
            let mut rot = case.ovs.clone();
            rot.rotate_left(1 + (seed as usize) % (n - 1).max(1));
            push("rotated", &rot, false, &mut variants);
            let mut sh = case.ovs.clone();
            let mut x = seed | 1;
            for i in (1..n).rev() {
                x = x.wrapping_mul(6364136223846793005).wrapping_add(1442695040888963407);
                sh.swap(i, (x >> 33) as usize % (i + 1));
            }
            push("shuffled", &sh, false, &mut variants);
        }
        push("renamed", &case.ovs, true, &mut variants);
        // levels swapped: which scope level declares an overload must not matter for the ranking
        // (only when no two signatures coincide, which `expected` already refuses to judge)
        let mut flipped = case.ovs.clone();
        flipped.iter_mut().for_each(|o| o.level ^= 1);
        push("levels_swapped", &flipped, false, &mut variants);
        // added overloads that do not match the call
        let mut extra = case.ovs.clone();
        let pool: Vec<Ty> = arg_types().into_iter().filter(|t| case.name == "f" || !(t.src().contains("Stack") || t.src().contains("Mapping"))).collect();
        let mut x = seed ^ 0x9e37;
        let mut added = 0;
        for k in 0..6 {
            x = x.wrapping_mul(6364136223846793005).wrapping_add(1442695040888963407);
            let np = (x >> 40) as usize % 4;
            let params: Vec<(Ty, Option<String>)> = (0..np)
                .map(|i| {
                    let y = x.rotate_left(7 * (i as u32 + 1));
                    (pool[(y >> 20) as usize % pool.len()].clone(), None)
                })
                .collect();
            let o = Ov { generics: vec![], params, level: (x >> 50) as u8 & 1, tag: 900 + k };
            let key = sig_key(&o);
            if !matches(&o, &case.args) && !extra.iter().any(|e| sig_key(e) == key) {
                extra.insert((x >> 30) as usize % (extra.len() + 1), o);
                added += 1;
                if added == 3 {
                    break;
                }
            }
        }
        // (a dynamic library overload looks up inner overloads of the same name at the call site:
        // an added overload that does not match the outer call may well match that inner one)
        if added > 0 && !matches!(exp, Outcome::Unjudged(_)) {
            push("non_matching_added", &extra, false, &mut variants);
        }
        let mut planned = vec![];
        for v in variants {
            job.srcs.push(v.src.clone());
            let c = job.steps.len();
            job.steps.push(Step::Compile { src: job.srcs.len() - 1 });
            planned.push((v, c, 0usize));
        }
        plans.push((exp, planned));
    }
    job.steps.push(Step::Instantiate);
    for (_, planned) in plans.iter_mut() {
        for (v, _, r) in planned.iter_mut() {
            *r = job.steps.len();
            job.steps.push(Step::Run { name: v.fname.clone() });
        }
    }
    job.cpu_s = 30;
    let r = ctx.exec(&job)?;
    let dead = end_failure(&r);
    let mut outs = vec![];
    for (case, (exp, planned)) in cases.iter().zip(plans) {
        let mut o = CaseOutcome {
            key: fnv(format!("{case:?}").as_bytes()),
            evals: planned.len() as u64,
            ..Default::default()
        };
        if planned.is_empty() {
            o.inconclusive = false;
            outs.push(o);
            continue;
        }
        if dead.is_some() {
            // re-run this case alone
            let mut single = Job::new("");
            single.srcs = planned.iter().map(|(v, _, _)| v.src.clone()).collect();
            single.steps = (0..planned.len()).map(|i| Step::Compile { src: i }).collect();
            single.steps.push(Step::Instantiate);
            for (v, _, _) in &planned {
                single.steps.push(Step::Run { name: v.fname.clone() });
            }
            let r1 = ctx.exec(&single)?;
            if let Some(f) = end_failure(&r1) {
                o.failures.push(f.key("name", case.name.clone()).direct(json!({"form": "c05", "job": single, "expect": Value::Null, "n": planned.len()})));
            } else {
                o.inconclusive = true;
            }
            outs.push(o);
            continue;
        }
        let m = case.ovs.iter().filter(|ov| matches(ov, &case.args)).count();
        let by_arity = case.ovs.iter().filter(|ov| {
            let min = ov.params.iter().take_while(|(_, d)| d.is_none()).count();
            case.args.len() >= min && case.args.len() <= ov.params.len()
        }).count();
        o.nontrivial = by_arity >= 2 || m >= 2 || exp == Outcome::Ambiguous;
        o.classes.push(format!("expected:{}", match &exp { Outcome::Tag(_) => "tag".to_string(), Outcome::Ambiguous => "ambiguous".into(), Outcome::NoOverload => "no_overload".into(), Outcome::Unjudged(w) => format!("unjudged ({w})") }));
        o.classes.push(format!("name:{}", if case.name == "f" { "fresh" } else { "library" }));
        o.classes.push(format!("matching_candidates:{}", m.min(3)));
        let base = observed(r.step(planned[0].1), r.step(planned[0].2));
        let mk_single = |vs: &[&Variant]| {
            let mut single = Job::new("");
            single.srcs = vs.iter().map(|v| v.src.clone()).collect();
            single.steps = (0..vs.len()).map(|i| Step::Compile { src: i }).collect();
            single.steps.push(Step::Instantiate);
            for v in vs {
                single.steps.push(Step::Run { name: v.fname.clone() });
            }
            single
        };
        // 1. the documented ranking
        if !matches!(exp, Outcome::Unjudged(_)) && base.1.as_ref() != Some(&exp) {
            let kind = match (&exp, &base.1) {
                (Outcome::Tag(_), Some(Outcome::Tag(_))) => "wrong_overload",
                (Outcome::Tag(_), Some(Outcome::Ambiguous)) => "ambiguous_but_ranked",
                (Outcome::Ambiguous, Some(Outcome::Tag(_))) => "ambiguity_resolved_silently",
                (Outcome::NoOverload, Some(Outcome::Tag(_))) => "non_matching_overload_ran",
                (Outcome::Tag(_), Some(Outcome::NoOverload)) => "matching_overload_not_found",
                _ => "unexpected_outcome",
            };
            o.failures.push(
                Failure::new(kind, format!("expected {exp:?}, observed: {}\n  {}", base.0, planned[0].0.src.replace('\n', "\n  ")))
                    .key("name", case.name.clone())
                    .direct(json!({"form": "c05", "job": mk_single(&[&planned[0].0]), "expect": outcome_json(&exp), "n": 1})),
            );
        }
        // 2. metamorphic variants agree with the base
        for (v, c, rr) in planned.iter().skip(1) {
            let got = observed(r.step(*c), r.step(*rr));
            let same = match (&base.1, &got.1) {
                (Some(a), Some(b)) => a == b,
                _ => base.0.split(']').next() == got.0.split(']').next(),
            };
            if !same {
                o.failures.push(
                    Failure::new("outcome_depends_on_presentation", format!("variant `{}` changes the outcome: base {} / variant {}\n  {}\n  --- variant ---\n  {}", v.what, base.0, got.0, planned[0].0.src.replace('\n', "\n  "), v.src.replace('\n', "\n  ")))
                        .key("name", case.name.clone())
                        .key("variant", v.what)
                        .direct(json!({"form": "c05", "job": mk_single(&[&planned[0].0, v]), "expect": "same", "n": 2})),
                );
                break;
            }
        }
        if outs.len() % 16 == 0 {
            o.sample = Some(json!({"program": planned[0].0.src, "expected": format!("{exp:?}"), "observed": base.0, "variants": planned.iter().map(|p| p.0.what).collect::<Vec<_>>()}));
        }
        outs.push(o);
    }
    Ok(outs)
}

fn outcome_json(o: &Outcome) -> Value {
    match o {
        Outcome::Tag(k) => json!({ "tag": k }),
        Outcome::Ambiguous => json!("ambiguous"),
        Outcome::NoOverload => json!("no_overload"),
        Outcome::Unjudged(_) => Value::Null,
    }
}

// ------------------------------------------------------------------------------------------
// dynamic library functions look up inner overloads at the call site
// ------------------------------------------------------------------------------------------

/// (description, declarations inside the case function, expression of type bool, expected)
fn dynamic_cases() -> Vec<(&'static str, String, &'static str)> {
    // `eq`, `cmp`, `hash`, `to_str` for a user struct: a non-generic user overload must be the
    // one a dynamic library function finds; a generic user overload must be found when no
    // non-generic one fits.
    let mut v = vec![];
    let decl_exact = "fn eq(a: P, b: P) -> bool { true }\n  fn cmp(a: P, b: P) -> int { cmp(b::v, a::v) }\n  fn hash(a: P) -> int { 1 }\n  fn to_str(a: P) -> str { \"exact\" }";
    // the generic overloads fit W<int> but not Sequence<W<int>>: only the inner lookup sees them
    let decl_w_exact = "struct W<X>(w: X)\n  fn eq(a: W<int>, b: W<int>) -> bool { true }\n  fn to_str(a: W<int>) -> str { \"exact\" }";
    let decl_w_generic = "fn eq<T>(a: W<T>, b: W<T>) -> bool { false }\n  fn to_str<T>(a: W<T>) -> str { \"generic\" }";
    for (name, decls, body) in [
        ("seq_eq_uses_user_eq", decl_exact.to_string(), "[P(1), P(2)] == [P(3), P(4)]"),
        ("tuple_eq_uses_user_eq", decl_exact.to_string(), "(P(1), 1) == (P(2), 1)"),
        ("optional_eq_uses_user_eq", decl_exact.to_string(), "some(P(1)) == some(P(2))"),
        ("sort_uses_user_cmp", decl_exact.to_string(), "[P(1), P(3), P(2)].sort().map((p: P) -> { p::v }) == [3, 2, 1]"),
        ("max_uses_user_cmp", decl_exact.to_string(), "[P(1), P(3), P(2)].to_generator().max()::v == 1"),
        ("seq_to_str_uses_user_to_str", decl_exact.to_string(), "[P(1)].to_str() == \"[exact]\""),
        ("mapping_uses_user_hash_eq", decl_exact.to_string(), "mapping<P>().set(P(1), 1).set(P(2), 2).len() == 1"),
        ("set_uses_user_hash_eq", decl_exact.to_string(), "set<P>().add(P(1)).add(P(2)).len() == 1"),
        ("exact_beats_generic_in_lookup", format!("{decl_w_exact}\n  {decl_w_generic}"), "([W(1)] == [W(2)]) && [W(1)].to_str() == \"[exact]\""),
        ("exact_beats_generic_in_lookup_reversed", format!("struct W<X>(w: X)\n  {decl_w_generic}\n  {}", decl_w_exact.replace("struct W<X>(w: X)\n  ", "")), "([W(1)] == [W(2)]) && [W(1)].to_str() == \"[exact]\""),
        ("generic_found_in_lookup", format!("struct W<X>(w: X)\n  {decl_w_generic}"), "!([W(1)] == [W(1)]) && [W(\"a\")].to_str() == \"[generic]\""),
        ("generic_user_beats_dynamic_library", "fn eq<T>(a: Sequence<T>, b: Sequence<T>) -> bool { false }".to_string(), "!([1] == [1])"),
        ("contains_uses_user_eq", decl_exact.to_string(), "[P(1)].contains(P(5))"),
        ("count_uses_user_eq", decl_exact.to_string(), "[P(1), P(2)].to_generator().count(P(5)) == 2"),
    ] {
        v.push((name, decls, body));
    }
    v
}

impl Property for C05 {
    fn id(&self) -> &'static str {
        "C05"
    }
    fn rule(&self) -> String {
        "Case: 1-6 overloads of one name (a fresh name, or one of 13 names the library also overloads: add, len, get, to_str, eq, max, contains, push, mul, neg, map, hash, cmp), each with 0-4 parameters drawn from 19 concrete types (int, str, float, bool, user structs P / Q, sequences, optionals, stacks, mappings, tuples, callables), 12 generic patterns over T / U or generalisations of the call's argument types, 0-2 trailing optional parameters, declared at one of two nesting levels inside the case function; a call with 0-3 arguments of fully known types. Every overload returns its own tag. Oracle 1 (ranking, R-type): exactly one matching non-generic overload -> it runs; several -> AmbiguousOverload; otherwise the same among generic overloads; none -> NoOverload; the library's own static overloads of the name take part (read from the interpreter), cases whose outcome they or a dynamic library overload decide are not judged against the model. Oracle 2 (metamorphic, no model): reversed / rotated / shuffled declaration order, renamed generic and value parameters, swapped nesting levels, and 1-3 added overloads that do not match the call give the same outcome. dynamic family: library functions that look up eq / cmp / hash / to_str of a user struct at the call site must find the user's overloads, the non-generic one before the generic one. Non-trivial = at least two candidates fit by arity, or two match, or the expected outcome is an ambiguity.".into()
    }
    fn assumptions(&self) -> Vec<String> {
        vec![
            "two overloads with identical parameter lists (up to renaming) are not judged against the ranking: the book does not say whether an inner declaration shadows an outer one".into(),
            "argument types are fully known (no unknown): with unknown arguments the implementation deliberately prefers generic candidates".into(),
        ]
    }
    fn families(&self, tier: Tier) -> Vec<Family> {
        let k = if tier == Tier::Quick { 1 } else { 30 };
        vec![Family { name: "sets", batches: 2000 * k, batch_size: 12, tape_len: 96 }]
    }
    fn enumerate(&self, ctx: &mut Ctx, _tier: Tier) -> Result<Vec<CaseOutcome>, HarnessError> {
        let mut outs = vec![];
        for (name, decls, body) in dynamic_cases() {
            let src = format!("fn d() -> bool {{\n  struct P(v: int)\n  {decls}\n  {body}\n}}\n");
            let mut job = Job::new(src.clone());
            job.steps = vec![Step::Compile { src: 0 }, Step::Instantiate, Step::Run { name: "d".into() }];
            let r = ctx.exec(&job)?;
            let mut o = CaseOutcome { key: fnv(name.as_bytes()), nontrivial: true, evals: 1, classes: vec!["family:dynamic_lookup".into()], ..Default::default() };
            let ok = matches!(r.step(2), Out::Value { dump } if dump["b"] == json!(true));
            if let Some(f) = end_failure(&r) {
                o.failures.push(f.key("case", name).direct(json!({"form": "c05dyn", "job": job})));
            } else if !ok {
                let got = if matches!(r.step(0), Out::Done) { crate::expect::brief(r.step(2)) } else { crate::expect::brief(r.step(0)) };
                o.failures.push(
                    Failure::new("dynamic_lookup_ignores_user_overload", format!("{name}: expected true, got {got}\n  {}", src.replace('\n', "\n  ")))
                        .key("case", name)
                        .direct(json!({"form": "c05dyn", "job": job})),
                );
            }
            o.sample = Some(json!({"case": name, "program": src}));
            outs.push(o);
        }
        Ok(outs)
    }
    fn run_batch(&self, _family: &str, subs: &[Vec<u8>], ctx: &mut Ctx) -> Result<Vec<CaseOutcome>, HarnessError> {
        let cases: Vec<Case> = subs.iter().map(|s| gen_case(&mut Tape::new(s))).collect();
        run_cases(&cases, subs, ctx)
    }
    fn check_direct(&self, direct: &Value, ctx: &mut Ctx) -> Result<Option<Failure>, HarnessError> {
        match direct["form"].as_str() {
            Some("c05dyn") => {
                let job: Job = serde_json::from_value(direct["job"].clone()).map_err(|e| HarnessError(e.to_string()))?;
                let r = ctx.exec(&job)?;
                if let Some(f) = end_failure(&r) {
                    return Ok(Some(f.direct(direct.clone())));
                }
                let ok = matches!(r.step(2), Out::Value { dump } if dump["b"] == json!(true));
                Ok(if ok { None } else { Some(Failure::new("dynamic_lookup_ignores_user_overload", format!("got {} / {}", crate::expect::brief(r.step(0)), crate::expect::brief(r.step(2)))).direct(direct.clone())) })
            }
            Some("c05") => {
                let job: Job = serde_json::from_value(direct["job"].clone()).map_err(|e| HarnessError(e.to_string()))?;
                let n = direct["n"].as_u64().unwrap_or(1) as usize;
                let r = ctx.exec(&job)?;
                if let Some(f) = end_failure(&r) {
                    return Ok(Some(f.direct(direct.clone())));
                }
                let obs: Vec<(String, Option<Outcome>)> = (0..n).map(|i| observed(r.step(i), r.step(n + 1 + i))).collect();
                let bad = match &direct["expect"] {
                    Value::String(s) if s == "same" => obs.len() >= 2 && obs[0].1 != obs[1].1,
                    Value::String(s) if s == "ambiguous" => obs[0].1 != Some(Outcome::Ambiguous),
                    Value::String(s) if s == "no_overload" => obs[0].1 != Some(Outcome::NoOverload),
                    Value::Object(m) => obs[0].1 != Some(Outcome::Tag(m["tag"].as_i64().unwrap_or(-1))),
                    _ => false,
                };
                Ok(if bad { Some(Failure::new("overload_resolution", format!("expected {}, observed {:?}", direct["expect"], obs.iter().map(|o| o.0.clone()).collect::<Vec<_>>())).direct(direct.clone())) } else { None })
            }
            _ => crate::direct::check_generic(direct, ctx),
        }
    }
}
