//! Helpers shared by the value-level properties: batching of cases into one program of
//! exported zero-argument functions, literal rendering, failure construction.
use crate::direct::{end_failure, make_direct};
use crate::expect::{brief, satisfied, Expect};
use crate::pool::HarnessError;
use crate::proto::*;
use crate::runner::{CaseOutcome, Ctx, Failure};
use crate::tape::{fnv, Tape};
use num_bigint::BigInt;
use num_traits::Signed;
use serde_json::{json, Value};

/// one generated case of a value-level property: a function body, its declared result type,
/// what is expected of it and facts about it
#[derive(Clone, Debug)]
pub struct ValCase {
    /// declarations placed before the function (structs, helper functions); may be empty
    pub prelude: String,
    pub ret_type: String,
    pub body: String,
    pub expect: Expect,
    pub nontrivial: bool,
    pub classes: Vec<String>,
    /// facts a known finding may key on (op name, operand class, ...)
    pub keys: Vec<(String, String)>,
    /// human-readable description for samples
    pub describe: String,
    pub underspecified: bool,
    pub excluded: u32,
    pub limits: Limits,
    /// a compile-time rejection is a pass (imprecise generators)
    pub reject_ok: bool,
}

impl ValCase {
    pub fn new(ret_type: &str, body: String, expect: Expect) -> Self {
        ValCase {
            prelude: String::new(),
            ret_type: ret_type.to_string(),
            body,
            expect,
            nontrivial: false,
            classes: vec![],
            keys: vec![],
            describe: String::new(),
            underspecified: false,
            excluded: 0,
            limits: Limits::default(),
            reject_ok: false,
        }
    }
    pub fn key(mut self, k: &str, v: impl Into<String>) -> Self {
        self.keys.push((k.to_string(), v.into()));
        self
    }
    pub fn class(mut self, c: impl Into<String>) -> Self {
        self.classes.push(c.into());
        self
    }
}

fn program_of(cases: &[&ValCase], names: &[String]) -> String {
    let mut src = String::new();
    let mut seen_preludes: Vec<&str> = Vec::new();
    for c in cases {
        if !c.prelude.is_empty() && !seen_preludes.contains(&c.prelude.as_str()) {
            seen_preludes.push(&c.prelude);
            src.push_str(&c.prelude);
            src.push('\n');
        }
    }
    for (c, n) in cases.iter().zip(names) {
        src.push_str(&format!("fn {n}() -> {} {{\n  {}\n}}\n", c.ret_type, c.body));
    }
    src
}

fn single_job(case: &ValCase, cpu_s: u64) -> Job {
    let mut job = Job::new(program_of(&[case], &["c0".to_string()])).run("c0");
    job.limits = case.limits.clone();
    job.cpu_s = cpu_s;
    job
}

/// turn the result of one case into failures
fn judge(case: &ValCase, out: &Out, prop_kind: &str, cpu_s: u64) -> Vec<Failure> {
    if satisfied(&case.expect, out) {
        return vec![];
    }
    if case.reject_ok && matches!(out, Out::CompileError { .. }) {
        if std::env::var("XV_DEBUG_REJECT").is_ok() {
            if let Out::CompileError { class, text } = out {
                eprintln!("REJECTED {class}: {} <= {}", text.lines().last().unwrap_or("").chars().take(160).collect::<String>(), case.body.replace('\n', " ").chars().take(200).collect::<String>());
            }
        }
        return vec![];
    }
    let kind = match out {
        Out::Panic { .. } => "panic",
        Out::CompileError { .. } => "rejected",
        _ => prop_kind,
    };
    let job = single_job(case, cpu_s);
    // step 2 of the single job is the Run
    let direct = make_direct(&job, &[(2, case.expect.clone())]);
    let mut f = Failure::new(
        kind,
        format!(
            "{}\n  body: {}\n  expected: {}\n  observed: {}",
            case.describe,
            case.body,
            serde_json::to_string(&case.expect).unwrap_or_default(),
            brief(out)
        ),
    )
    .direct(direct);
    for (k, v) in &case.keys {
        f = f.key(k, v.clone());
    }
    f = f.key("body", case.body.clone());
    if let Out::Panic { msg, .. } = out {
        f = f.key("panic", norm_panic(msg));
    }
    vec![f]
}

/// Run a batch of value cases as one program (falling back to one program per case when the
/// batch as a whole does not compile or the process dies), and judge each case.
pub fn run_val_batch(
    cases: Vec<ValCase>,
    ctx: &mut Ctx,
    mismatch_kind: &str,
) -> Result<Vec<CaseOutcome>, HarnessError> {
    run_val_batch_cfg(cases, ctx, &BatchCfg { mismatch_kind, cpu_s: 20, timeouts_inconclusive: false, panics_inconclusive: false })
}

pub struct BatchCfg<'a> {
    pub mismatch_kind: &'a str,
    pub cpu_s: u64,
    /// a CPU/memory budget overrun is counted as inconclusive instead of being reported
    /// (every property except C10 / the totality half of C01, C12)
    pub timeouts_inconclusive: bool,
    /// a panic is some other property's business (C01): count, do not report
    pub panics_inconclusive: bool,
}

pub fn run_val_batch_cfg(
    cases: Vec<ValCase>,
    ctx: &mut Ctx,
    cfg: &BatchCfg,
) -> Result<Vec<CaseOutcome>, HarnessError> {
    let cpu_s = cfg.cpu_s;
    let mismatch_kind = cfg.mismatch_kind;
    let names: Vec<String> = (0..cases.len()).map(|i| format!("c{i}")).collect();
    let same_limits = cases.windows(2).all(|w| w[0].limits == w[1].limits);
    let mut outs: Vec<Option<Out>> = vec![None; cases.len()];
    let mut evals = 0u64;
    if same_limits && cases.len() > 1 {
        // every case is compiled by its own feed into one scope (a rejected case does not
        // take the batch down), then all are run on one runtime
        let mut srcs: Vec<String> = Vec::new();
        let mut steps: Vec<Step> = Vec::new();
        let mut seen_preludes: Vec<&str> = Vec::new();
        for c in &cases {
            if !c.prelude.is_empty() && !seen_preludes.contains(&c.prelude.as_str()) {
                seen_preludes.push(&c.prelude);
                steps.push(Step::Compile { src: srcs.len() });
                srcs.push(c.prelude.clone());
            }
        }
        let first_case_step = steps.len();
        for (c, n) in cases.iter().zip(&names) {
            steps.push(Step::Compile { src: srcs.len() });
            srcs.push(format!("fn {n}() -> {} {{\n  {}\n}}\n", c.ret_type, c.body));
        }
        steps.push(Step::Instantiate);
        let inst_step = steps.len() - 1;
        for n in &names {
            steps.push(Step::Run { name: n.clone() });
        }
        let mut job = Job::new("");
        job.srcs = srcs;
        job.steps = steps;
        job.limits = cases[0].limits.clone();
        job.cpu_s = cpu_s;
        let reply = ctx.exec(&job)?;
        evals += 1;
        let alive = |idx: usize| reply.end == End::Ok || reply.died_in.map_or(true, |d| idx < d);
        let instantiated = matches!(reply.step(inst_step), Out::Done);
        for i in 0..cases.len() {
            let cstep = first_case_step + i;
            let rstep = inst_step + 1 + i;
            if !alive(cstep) {
                continue;
            }
            match reply.step(cstep) {
                Out::Done => {
                    if instantiated && alive(rstep) {
                        outs[i] = Some(reply.step(rstep).clone());
                    }
                }
                other => outs[i] = Some(other.clone()),
            }
        }
    }
    let mut result = Vec::new();
    for (i, case) in cases.iter().enumerate() {
        let mut failures = Vec::new();
        let mut inconclusive = false;
        let out = match outs[i].take() {
            Some(o) => Some(o),
            None => {
                let job = single_job(case, cpu_s);
                let reply = ctx.exec(&job)?;
                evals += 1;
                if let Some(f) = end_failure(&reply) {
                    if (f.kind == "timeout" || f.kind == "memory") && cfg.timeouts_inconclusive {
                        inconclusive = true;
                    } else if f.kind == "timeout" || f.kind == "memory" {
                        // confirm on a second run with twice the budget before reporting
                        let mut j2 = job.clone();
                        j2.cpu_s = cpu_s * 2;
                        let r2 = ctx.exec(&j2)?;
                        evals += 1;
                        if r2.end == End::Ok {
                            inconclusive = true;
                        }
                    }
                    if !inconclusive {
                        let mut f = f.direct(make_direct(&job, &[(2, case.expect.clone())]));
                        f.message = format!("{}\n  body: {}\n  {}", case.describe, case.body, f.message);
                        for (k, v) in &case.keys {
                            f = f.key(k, v.clone());
                        }
                        failures.push(f);
                    }
                    None
                } else if !matches!(reply.step(0), Out::Done) {
                    Some(reply.step(0).clone())
                } else if !matches!(reply.step(1), Out::Done) {
                    Some(reply.step(1).clone())
                } else {
                    Some(reply.step(2).clone())
                }
            }
        };
        if let Some(o) = &out {
            if cfg.panics_inconclusive && o.is_panic() {
                inconclusive = true;
            } else {
                failures.extend(judge(case, o, mismatch_kind, cpu_s));
            }
        }
        if cfg.panics_inconclusive {
            let before = failures.len();
            failures.retain(|f| f.kind != "abort");
            if failures.len() != before {
                inconclusive = true;
            }
        }
        let key = fnv(format!("{}|{}|{}", case.prelude, case.ret_type, case.body).as_bytes());
        let mut classes = case.classes.clone();
        classes.push(format!("out:{}", out.as_ref().map_or("died", |o| o.class())));
        result.push(CaseOutcome {
            key,
            // a case the compiler rejected exercised nothing
            nontrivial: case.nontrivial && !matches!(out, Some(Out::CompileError { .. })),
            classes,
            sample: Some(json!({
                "case": case.describe,
                "body": case.body,
                "expected": case.expect,
                "observed": out.as_ref().map(brief),
            })),
            failures,
            inconclusive,
            underspecified: case.underspecified,
            excluded: case.excluded,
            evals: 0,
        });
    }
    if let Some(first) = result.first_mut() {
        first.evals = evals;
    }
    // every case counts as at least one evaluation (it was executed inside the batch)
    for r in result.iter_mut() {
        r.evals = r.evals.max(1);
    }
    Ok(result)
}

// ---------------------------------------------------------------- literals

pub fn pow2(n: u32) -> BigInt {
    BigInt::from(1) << n
}

/// source text denoting the integer `v` (parenthesised when negative).  Values beyond the
/// 128-bit literal range are spelled `to_int("…")`; inside that range the tape chooses.
pub fn int_src(v: &BigInt, t: &mut Tape) -> String {
    let fits_literal = v.abs() < pow2(127);
    let small = v.abs() < pow2(63);
    let via_text = !fits_literal || (!small && t.chance(64));
    if via_text {
        format!("to_int(\"{v}\")")
    } else if v.is_negative() {
        format!("(-{})", v.abs())
    } else {
        v.to_string()
    }
}

pub fn str_src(s: &str) -> String {
    let mut out = String::from("\"");
    for c in s.chars() {
        match c {
            '"' => out.push_str("\\\""),
            '\\' => out.push_str("\\\\"),
            '\n' => out.push_str("\\n"),
            '\r' => out.push_str("\\r"),
            '\t' => out.push_str("\\t"),
            '\0' => out.push_str("\\0"),
            c => out.push(c),
        }
    }
    out.push('"');
    out
}

/// float literal that parses back to exactly `f` (finite)
pub fn float_src(f: f64) -> String {
    let s = format!("{f:?}");
    let s = if s.contains('e') && !s.contains('.') {
        // 1e300 style is fine for the grammar (int ~ exponent)
        s
    } else {
        s
    };
    if f.is_sign_negative() {
        format!("({s})")
    } else {
        s
    }
}

pub fn val_json(v: &Value) -> String {
    v.to_string()
}

/// panic message with numbers blanked and truncated: stable under unrelated edits
pub fn norm_panic(msg: &str) -> String {
    let mut out = String::new();
    let mut last_hash = false;
    for c in msg.chars() {
        if c.is_ascii_digit() {
            if !last_hash {
                out.push('#');
            }
            last_hash = true;
        } else {
            out.push(c);
            last_hash = false;
        }
        if out.len() >= 70 {
            break;
        }
    }
    out
}
