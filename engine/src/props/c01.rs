//! C01 — accepted programs never go wrong (type soundness).
use super::c13::{float_pool, int_pool, lib, std_limits, str_pool};
use super::common::*;
use crate::expect::Expect;
use crate::gstd::*;
use crate::pool::HarnessError;
use crate::proto::*;
use crate::runner::*;
use crate::tape::Tape;
use std::collections::{BTreeMap, HashMap};

pub struct C01;

fn defs_for(ty: &Ty, lib: &Lib, out: &mut BTreeMap<String, CompoundDef>) {
    match ty {
        Ty::Compound(_, n, a) => {
            for x in a {
                defs_for(x, lib, out);
            }
            if !out.contains_key(n) {
                if let Some(d) = lib.compounds.get(n) {
                    out.insert(n.clone(), d.clone());
                    for (_, t) in &d.fields {
                        defs_for(t, lib, out);
                    }
                }
            }
        }
        Ty::Native(_, a) | Ty::Tuple(a) => a.iter().for_each(|x| defs_for(x, lib, out)),
        Ty::Callable(p, r) => {
            p.iter().for_each(|x| defs_for(x, lib, out));
            defs_for(r, lib, out)
        }
        _ => {}
    }
}

fn limits_for(t: &mut Tape) -> Limits {
    match t.below(4) {
        0 => std_limits(),
        1 => Limits {
            search: Some(t.range(1, 200) as u64),
            calls: Some(t.range(1, 5000) as u64),
            depth: Some(t.range(2, 60) as u64),
            recursion: Some(t.range(1, 1000) as u64),
            size: Some(40_000 + t.range(0, 200_000) as u64),
            ..Limits::default()
        },
        2 => Limits {
            search: Some(5_000),
            calls: Some(50_000),
            depth: Some(200),
            // always a size limit: without one, materialising an astronomically long
            // sequence legitimately exhausts the host
            size: Some(256 << 20),
            ..Limits::default()
        },
        _ => std_limits(),
    }
}

fn gen_std_case(t: &mut Tape, lib: &Lib, excluded: &[String]) -> ValCase {
    let cfg = GenCfg {
        call_chance: 90,
        int_pool: {
            let mut p = int_pool();
            p.extend(["4", "(-2)", "7", "(2 ** 64)", "(-(2 ** 63))", "100"].iter().map(|s| s.to_string()));
            p
        },
        float_pool: float_pool(),
        str_pool: str_pool(),
        empty_containers: false,
    };
    let usable: Vec<usize> = lib
        .fns
        .iter()
        .enumerate()
        .filter(|(_, f)| !AVOID.contains(&f.name.as_str()) && !f.name.starts_with("__") && !excluded.contains(&f.name))
        .map(|(i, _)| i)
        .collect();
    let fi = *t.pick(&usable);
    let sig = lib.fns[fi].clone();
    let limits = limits_for(t);
    let mut g = Gen {
        lib,
        t,
        cfg: &cfg,
        env: vec![],
        counter: 0,
        used: vec![],
        excluded_fns: excluded.to_vec(),
        redirected: 0,
    };
    let mut b = HashMap::new();
    for gname in &sig.generics {
        let c = g.concrete();
        b.insert(gname.clone(), c);
    }
    let ret = g.concretize(&sig.ret.subst(&b));
    let fuel = 1 + g.t.below(3) as u32;
    let body = g.call(fi, b, fuel);
    let used = g.used.clone();
    let redirected = g.redirected;
    let mut defs = BTreeMap::new();
    defs_for(&ret, lib, &mut defs);
    let mut c = ValCase::new(&ret.src(), body.clone(), Expect::Conforms { ty: ret.clone(), defs });
    c.reject_ok = true;
    c.excluded = redirected;
    c.limits = limits;
    c.describe = format!("{}(…) : {}", sig.name, ret.src());
    let generic = !sig.generics.is_empty();
    let callable = sig.params.iter().any(|p| matches!(p.0, Ty::Callable(..)));
    let bottom = body.contains("then(false") || body.contains("take([");
    let compound = matches!(ret, Ty::Compound(..)) || body.contains("::");
    c.nontrivial = generic || callable || bottom || compound;
    c = c.key("fn", sig.name.clone()).class(format!("fn:{}", sig.name));
    if generic {
        c = c.class("generic_call");
    }
    if callable {
        c = c.class("callable_arg");
    }
    if bottom {
        c = c.class("bottom_type");
    }
    if compound {
        c = c.class("compound");
    }
    for u in used.iter().take(4) {
        if *u != sig.name {
            c = c.class(format!("inner:{u}"));
        }
    }
    c
}

impl Property for C01 {
    fn id(&self) -> &'static str {
        "C01"
    }
    fn rule(&self) -> String {
        "std: a call of any root-scope function (table read from the interpreter through the hook; all static overloads) with type-directed arguments from edge pools and nested library calls, under a limit configuration drawn from {library defaults, tight random limits, medium}; run as an exported zero-argument function. Oracle: the step ends in a value, an error value or a violation (never a panic or a dead process) and the value's canonical dump has the shape of the declared static type (sequence elements, tuple arity, struct fields, union tag, optionals, mapping keys/values, recursively). Non-trivial = accepted by the compiler and uses a generic call, a callable argument, a bottom-typed argument or a compound. Distinct by function body.".into()
    }
    fn assumptions(&self) -> Vec<String> {
        vec![
            "programs the compiler rejects are generator imprecision and count as discarded".into(),
            "a CPU-budget overrun is inconclusive here (C10 owns termination)".into(),
        ]
    }
    fn families(&self, tier: Tier) -> Vec<Family> {
        let k = if tier == Tier::Quick { 1 } else { 25 };
        vec![Family {
            name: "std",
            batches: 700 * k,
            batch_size: 50,
            tape_len: 140,
        }]
    }
    fn run_batch(&self, _family: &str, subs: &[Vec<u8>], ctx: &mut Ctx) -> Result<Vec<CaseOutcome>, HarnessError> {
        let l = lib(ctx)?;
        let excluded = ctx.findings.excluded_with_prefix("fn:");
        // cases of one batch share a runtime, hence a limit configuration: the first
        // sub-tape's choice is used for all
        let mut cases: Vec<ValCase> = subs
            .iter()
            .map(|s| {
                let mut t = Tape::new(s);
                gen_std_case(&mut t, l, &excluded)
            })
            .collect();
        let lim = cases[0].limits.clone();
        for c in cases.iter_mut() {
            c.limits = lim.clone();
        }
        run_val_batch_cfg(
            cases,
            ctx,
            &BatchCfg {
                mismatch_kind: "type_confusion",
                cpu_s: 10,
                timeouts_inconclusive: true,
                panics_inconclusive: false,
            },
        )
    }
}
