//! C01 — accepted programs never go wrong (type soundness).
use super::c13::{float_pool, int_pool, lib, std_limits, str_pool};
use super::common::*;
use crate::expect::Expect;
use crate::gstd::*;
use crate::pool::HarnessError;
use crate::proto::*;
use crate::runner::*;
use crate::tape::Tape;
use std::collections::{BTreeMap, HashMap};

pub struct C01;

fn defs_for(ty: &Ty, lib: &Lib, out: &mut BTreeMap<String, CompoundDef>) {
    match ty {
        Ty::Compound(_, n, a) => {
            for x in a {
                defs_for(x, lib, out);
            }
            if !out.contains_key(n) {
                if let Some(d) = lib.compounds.get(n) {
                    out.insert(n.clone(), d.clone());
                    for (_, t) in &d.fields {
                        defs_for(t, lib, out);
                    }
                }
            }
        }
        Ty::Native(_, a) | Ty::Tuple(a) => a.iter().for_each(|x| defs_for(x, lib, out)),
        Ty::Callable(p, r) => {
            p.iter().for_each(|x| defs_for(x, lib, out));
            defs_for(r, lib, out)
        }
        _ => {}
    }
}

fn limits_for(t: &mut Tape) -> Limits {
    match t.below(4) {
        0 => std_limits(),
        1 => Limits {
            search: Some(t.range(1, 200) as u64),
            calls: Some(t.range(1, 5000) as u64),
            depth: Some(t.range(2, 60) as u64),
            recursion: Some(t.range(1, 1000) as u64),
            size: Some(40_000 + t.range(0, 200_000) as u64),
            ..Limits::default()
        },
        2 => Limits {
            search: Some(5_000),
            calls: Some(50_000),
            depth: Some(200),
            // always a size limit: without one, materialising an astronomically long
            // sequence legitimately exhausts the host
            size: Some(256 << 20),
            ..Limits::default()
        },
        _ => std_limits(),
    }
}

pub(super) fn gen_std_case(t: &mut Tape, lib: &Lib, excluded: &[String]) -> ValCase {
    let cfg = GenCfg {
        call_chance: 90,
        int_pool: {
            let mut p = int_pool();
            p.extend(["4", "(-2)", "7", "(2 ** 64)", "(-(2 ** 63))", "100"].iter().map(|s| s.to_string()));
            p
        },
        float_pool: float_pool(),
        str_pool: str_pool(),
        empty_containers: false,
    };
    let usable: Vec<usize> = lib
        .fns
        .iter()
        .enumerate()
        .filter(|(_, f)| !AVOID.contains(&f.name.as_str()) && !f.name.starts_with("__") && !excluded.contains(&f.name))
        .map(|(i, _)| i)
        .collect();
    let fi = *t.pick(&usable);
    let sig = lib.fns[fi].clone();
    let limits = limits_for(t);
    let mut g = Gen {
        lib,
        t,
        cfg: &cfg,
        env: vec![],
        counter: 0,
        used: vec![],
        excluded_fns: excluded.to_vec(),
        redirected: 0,
    };
    let mut b = HashMap::new();
    for gname in &sig.generics {
        let c = g.concrete();
        b.insert(gname.clone(), c);
    }
    let ret = g.concretize(&sig.ret.subst(&b));
    let fuel = 1 + g.t.below(3) as u32;
    let body = g.call(fi, b, fuel);
    let used = g.used.clone();
    let redirected = g.redirected;
    let mut defs = BTreeMap::new();
    defs_for(&ret, lib, &mut defs);
    let mut c = ValCase::new(&ret.src(), body.clone(), Expect::Conforms { ty: ret.clone(), defs });
    c.reject_ok = true;
    c.excluded = redirected;
    c.limits = limits;
    c.describe = format!("{}(…) : {}", sig.name, ret.src());
    let generic = !sig.generics.is_empty();
    let callable = sig.params.iter().any(|p| matches!(p.0, Ty::Callable(..)));
    let bottom = body.contains("then(false") || body.contains("take([");
    let compound = matches!(ret, Ty::Compound(..)) || body.contains("::");
    c.nontrivial = generic || callable || bottom || compound;
    c = c.key("fn", sig.name.clone()).class(format!("fn:{}", sig.name));
    if generic {
        c = c.class("generic_call");
    }
    if callable {
        c = c.class("callable_arg");
    }
    if bottom {
        c = c.class("bottom_type");
    }
    if compound {
        c = c.class("compound");
    }
    for u in used.iter().take(4) {
        if *u != sig.name {
            c = c.class(format!("inner:{u}"));
        }
    }
    c
}

/// near-miss programs: the typing corner cases of C04 (generic binding with unknown-typed
/// arguments, least common types, multi-parameter compounds, holes and edits) are compiled as
/// top-level bindings; whatever the compiler ACCEPTS - rightly or wrongly - is instantiated, and
/// every value must have the shape of the static type the compiler recorded for it
fn run_near_miss(subs: &[Vec<u8>], ctx: &mut Ctx) -> Result<Vec<CaseOutcome>, HarnessError> {
    use crate::direct::end_failure;
    use serde_json::json;
    let mut snips = vec![];
    for (i, s) in subs.iter().enumerate() {
        let mut t = Tape::new(s);
        if let Some(sn) = super::c04::gen_infer(&mut t, i) {
            snips.push((i, sn));
        }
    }
    if snips.is_empty() {
        return Ok(vec![]);
    }
    let mut job = Job::new("");
    job.srcs = vec![super::c04::PRELUDE.to_string()];
    job.steps = vec![Step::Compile { src: 0 }];
    for (_, s) in &snips {
        job.srcs.push(s.src.clone());
        job.steps.push(Step::Compile { src: job.srcs.len() - 1 });
    }
    job.steps.push(Step::Instantiate);
    job.steps.push(Step::DumpAll);
    job.cpu_s = 20;
    let r = ctx.exec(&job)?;
    let mut outs = vec![];
    let dead = end_failure(&r);
    let vars: std::collections::BTreeMap<String, (serde_json::Value, Out)> = match r.step(job.steps.len() - 1) {
        Out::All { vars } => vars.iter().map(|(n, t, o)| (n.clone(), (t.clone(), (**o).clone()))).collect(),
        _ => Default::default(),
    };
    for (k, (i, s)) in snips.iter().enumerate() {
        let mut o = CaseOutcome { key: crate::tape::fnv(s.src.as_bytes()), evals: 1, classes: vec!["near_miss".into()], ..Default::default() };
        let single = || {
            let mut j = Job::new("");
            j.srcs = vec![super::c04::PRELUDE.to_string(), s.src.clone()];
            j.steps = vec![Step::Compile { src: 0 }, Step::Compile { src: 1 }, Step::Instantiate, Step::DumpAll];
            j
        };
        if dead.is_some() || r.steps.iter().any(|x| x.is_panic()) {
            // judge it alone
            let j = single();
            let r1 = ctx.exec(&j)?;
            o.evals += 1;
            if let Some(f) = end_failure(&r1) {
                o.failures.push(f.direct(json!({"form": "no_crash", "job": j})));
            } else if let Some(p) = r1.steps.iter().find(|x| x.is_panic()) {
                o.failures.push(Failure::new("panic", format!("{}\n  {}", crate::expect::brief(p), s.src.replace('\n', "\n  "))).direct(json!({"form": "no_crash", "job": j})));
            } else {
                o.inconclusive = true;
            }
            outs.push(o);
            continue;
        }
        let accepted = matches!(r.step(1 + k), Out::Done);
        o.classes.push(if accepted { "near_miss:accepted".into() } else { "near_miss:rejected".into() });
        o.nontrivial = accepted;
        if accepted {
            let name = format!("r{i}");
            if let Some((tyj, out)) = vars.get(&name) {
                let mut compounds = std::collections::BTreeMap::new();
                let ty = Ty::from_json(tyj, &mut compounds);
                if let Out::Value { dump } = out {
                    if let Err(why) = conforms(dump, &ty, &compounds, 0) {
                        let j = single();
                        o.failures.push(
                            Failure::new("type_confusion", format!("the accepted binding {name} has static type {} but its value does not have that shape: {why}\n  {}", ty.src(), s.src.replace('\n', "\n  ")))
                                .direct(json!({"form": "c01_conform", "job": j, "name": name})),
                        );
                    }
                }
            }
        }
        outs.push(o);
    }
    Ok(outs)
}

impl Property for C01 {
    fn id(&self) -> &'static str {
        "C01"
    }
    fn rule(&self) -> String {
        "std: a call of any root-scope function (table read from the interpreter through the hook; all static overloads) with type-directed arguments from edge pools and nested library calls, under a limit configuration drawn from {library defaults, tight random limits, medium}; run as an exported zero-argument function. Oracle: the step ends in a value, an error value or a violation (never a panic or a dead process) and the value's canonical dump has the shape of the declared static type (sequence elements, tuple arity, struct fields, union tag, optionals, mapping keys/values, recursively). Non-trivial = accepted by the compiler and uses a generic call, a callable argument, a bottom-typed argument or a compound. Distinct by function body.".into()
    }
    fn assumptions(&self) -> Vec<String> {
        vec![
            "programs the compiler rejects are generator imprecision and count as discarded".into(),
            "a CPU-budget overrun is inconclusive here (C10 owns termination)".into(),
        ]
    }
    fn families(&self, tier: Tier) -> Vec<Family> {
        let k = if tier == Tier::Quick { 1 } else { 25 };
        vec![
            Family { name: "std", batches: 700 * k, batch_size: 50, tape_len: 140 },
            Family { name: "near_miss", batches: 300 * k, batch_size: 40, tape_len: 96 },
        ]
    }
    fn check_direct(&self, direct: &serde_json::Value, ctx: &mut Ctx) -> Result<Option<Failure>, HarnessError> {
        if direct["form"].as_str() != Some("c01_conform") {
            return crate::direct::check_generic(direct, ctx);
        }
        let job: Job = serde_json::from_value(direct["job"].clone()).map_err(|e| HarnessError(e.to_string()))?;
        let r = ctx.exec(&job)?;
        if let Some(f) = crate::direct::end_failure(&r) {
            return Ok(Some(f.direct(direct.clone())));
        }
        if let Some(p) = r.steps.iter().find(|x| x.is_panic()) {
            return Ok(Some(Failure::new("panic", crate::expect::brief(p)).direct(direct.clone())));
        }
        let name = direct["name"].as_str().unwrap_or("");
        if let Out::All { vars } = r.step(job.steps.len() - 1) {
            for (n, tyj, out) in vars {
                if n == name {
                    let mut compounds = BTreeMap::new();
                    let ty = Ty::from_json(tyj, &mut compounds);
                    if let Out::Value { dump } = &**out {
                        if let Err(why) = conforms(dump, &ty, &compounds, 0) {
                            return Ok(Some(Failure::new("type_confusion", why).direct(direct.clone())));
                        }
                    }
                }
            }
        }
        Ok(None)
    }
    fn run_batch(&self, family: &str, subs: &[Vec<u8>], ctx: &mut Ctx) -> Result<Vec<CaseOutcome>, HarnessError> {
        if family == "near_miss" {
            return run_near_miss(subs, ctx);
        }
        let l = lib(ctx)?;
        let excluded = ctx.findings.excluded_with_prefix("fn:");
        // cases of one batch share a runtime, hence a limit configuration: the first
        // sub-tape's choice is used for all
        let mut cases: Vec<ValCase> = subs
            .iter()
            .map(|s| {
                let mut t = Tape::new(s);
                gen_std_case(&mut t, l, &excluded)
            })
            .collect();
        let lim = cases[0].limits.clone();
        for c in cases.iter_mut() {
            c.limits = lim.clone();
        }
        run_val_batch_cfg(
            cases,
            ctx,
            &BatchCfg {
                mismatch_kind: "type_confusion",
                cpu_s: 10,
                timeouts_inconclusive: true,
                panics_inconclusive: false,
            },
        )
    }
}
