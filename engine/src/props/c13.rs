//! C13 — floats are always finite.
use super::common::*;
use crate::expect::Expect;
use crate::gstd::*;
use crate::pool::HarnessError;
use crate::proto::*;
use crate::runner::*;
use crate::tape::Tape;
use std::sync::OnceLock;

pub struct C13;

static LIB: OnceLock<Lib> = OnceLock::new();

/// the library's function table, read from the interpreter once per process
pub fn lib(ctx: &mut Ctx) -> Result<&'static Lib, HarnessError> {
    if let Some(l) = LIB.get() {
        return Ok(l);
    }
    let mut job = Job::new("");
    job.steps = vec![Step::Compile { src: 0 }, Step::RootFunctions];
    let r = ctx.exec(&job)?;
    let Out::Json { json } = r.step(1) else {
        return Err(HarnessError(format!("cannot read root functions: {:?}", r.step(1))));
    };
    let l = Lib::from_json(json);
    if l.fns.len() < 100 {
        return Err(HarnessError("root function table implausibly small".into()));
    }
    Ok(LIB.get_or_init(|| l))
}

pub fn float_pool() -> Vec<String> {
    [
        "0.0", "(-0.0)", "5e-324", "2.2250738585072014e-308", "1.0", "(-1.0)", "1.0000000000000002",
        "0.9999999999999999", "1.7976931348623157e308", "(-1.7976931348623157e308)", "1e308", "(-1e308)",
        "1e-308", "8.98846567431158e307", "0.5", "(-0.5)", "3.141592653589793", "2.718281828459045",
        "9007199254740993.0", "1e16", "170.0", "171.0", "172.0", "709.0", "710.0", "1e154", "1.5e154",
        "1e-200", "(-1e-200)", "0.1", "2.0", "(-2.0)", "100.0", "1e22", "1e-320", "0.25", "(-170.5)",
        "1e300", "(-1e300)", "1.3407807929942597e154", "6.283185307179586", "1.5707963267948966",
    ]
    .iter()
    .map(|s| s.to_string())
    .collect()
}

pub fn int_pool() -> Vec<String> {
    [
        "0", "1", "(-1)", "2", "3", "10", "(-3)", "1000", "9007199254740993", "9223372036854775807",
        "(10 ** 308)", "(10 ** 309)", "(2 ** 1024)", "(2 ** 1024 - 1)", "(-(10 ** 400))", "(2 ** 1023)", "64",
        "(-64)", "170", "171", "1025", "(-1074)", "(-1075)", "5",
    ]
    .iter()
    .map(|s| s.to_string())
    .collect()
}

pub fn str_pool() -> Vec<String> {
    ["\"\"", "\"a\"", "\"abc\"", "\"1.5\"", "\"é∑😀\"", "\" x \"", "\"1e400\"", "\".2f\"", "\"e\""]
        .iter()
        .map(|s| s.to_string())
        .collect()
}

pub fn std_limits() -> Limits {
    Limits {
        search: Some(20_000),
        calls: Some(200_000),
        depth: Some(400),
        recursion: Some(100_000),
        size: Some(64 << 20),
        ..Limits::default()
    }
}

fn gen_lib_case(t: &mut Tape, lib: &Lib, excluded: &[String]) -> ValCase {
    let mut cfg = GenCfg {
        call_chance: 70,
        int_pool: int_pool(),
        float_pool: float_pool(),
        str_pool: str_pool(),
        empty_containers: false,
    };
    // random finite doubles by bit pattern join the pool for this case
    for _ in 0..3 {
        let f = f64::from_bits(t.u64());
        if f.is_finite() {
            cfg.float_pool.push(float_src(f));
        }
    }
    let floaty: Vec<usize> = lib
        .fns
        .iter()
        .enumerate()
        .filter(|(_, f)| {
            !AVOID.contains(&f.name.as_str())
                && !excluded.contains(&f.name)
                && !f.name.starts_with("__")
                && (f.ret.mentions_float(lib, 2) || f.params.iter().any(|p| p.0.mentions_float(lib, 1)))
        })
        .map(|(i, _)| i)
        .collect();
    let fi = *t.pick(&floaty);
    let sig = lib.fns[fi].clone();
    let mut g = Gen {
        lib,
        t,
        cfg: &cfg,
        env: vec![],
        counter: 0,
        used: vec![],
        excluded_fns: excluded.to_vec(),
        redirected: 0,
    };
    // bind generics first so that the declared result type is known
    let mut b = std::collections::HashMap::new();
    for gname in &sig.generics {
        let c = g.concrete();
        b.insert(gname.clone(), c);
    }
    let ret = g.concretize(&sig.ret.subst(&b));
    let fuel = 1 + g.t.below(3) as u32;
    let body = g.call(fi, b, fuel);
    let used = g.used.clone();
    let redirected = g.redirected;
    let mut c = ValCase::new(&ret.src(), body.clone(), Expect::Finite);
    c.reject_ok = true;
    c.excluded = redirected;
    c.limits = std_limits();
    c.describe = format!("{}(…) : {}", sig.name, ret.src());
    let edge = ["e308", "e154", "e-3", "5e-324", "** 30", "** 40", "2 ** 10", "(-0.0)", "710.0", "172.0", "e300"]
        .iter()
        .any(|m| body.contains(m));
    c.nontrivial = edge;
    c = c.key("fn", sig.name.clone()).key("arity", sig.params.len().to_string());
    c = c.class(format!("fn:{}", sig.name));
    for u in used.iter().take(4) {
        if *u != sig.name {
            c = c.class(format!("inner:{u}"));
        }
    }
    c
}

fn gen_literal_case(t: &mut Tape) -> ValCase {
    // every float-literal spelling the grammar admits: digits, fraction, exponent of either
    // sign, separators; magnitudes across and beyond the double range
    let int_digits = t.range(1, 30) as usize;
    let mut s = String::new();
    for i in 0..int_digits {
        let d = if i == 0 { t.range(0, 9) } else { t.range(0, 9) };
        s.push(char::from(b'0' + d as u8));
        if i + 1 < int_digits && t.chance(20) {
            s.push('_');
        }
    }
    let shape = t.below(4);
    if shape & 1 == 1 || shape == 0 {
        s.push('.');
        for _ in 0..t.range(1, 25) {
            s.push(char::from(b'0' + t.range(0, 9) as u8));
        }
    }
    if shape >= 2 || shape == 0 {
        s.push(if t.bool() { 'e' } else { 'E' });
        let mag = *t.pick(&[0i64, 1, 10, 22, 300, 307, 308, 309, 310, 323, 324, 325, 400, 1000, 5000]);
        let neg = t.bool();
        if neg {
            s.push('-');
        }
        s.push_str(&mag.to_string());
    }
    let body = match t.below(4) {
        0 => s.clone(),
        1 => format!("(-{s})"),
        2 => format!("{s} * 1.0"),
        _ => format!("[{s}, 1.0][0]"),
    };
    let mut c = ValCase::new("float", body, Expect::Finite);
    // a literal the compiler refuses is fine; one it accepts must denote a finite float
    c.reject_ok = true;
    c.describe = format!("literal {s}");
    c.nontrivial = s.contains('e') || s.contains('E');
    c = c.key("fn", "literal").class("literal");
    if s.contains("e3") || s.contains("E3") || s.contains("e4") || s.contains("e1000") || s.contains("e5000") {
        c = c.key("mag", "huge").class("literal:huge");
    }
    c
}

impl Property for C13 {
    fn id(&self) -> &'static str {
        "C13"
    }
    fn rule(&self) -> String {
        "lib: a call of a root-scope function whose signature mentions float (table read from the interpreter through the hook), arguments type-directed from edge pools (0, subnormals, +-1, 1+-eps, domain edges, 1e308-scale, 2^1023, 10^308..10^400 and 2^1024 as ints) plus random doubles by bit pattern and nested library calls; literal: every float-literal spelling with exponents to +-5000. Oracle: every float node of the canonical dump is finite (error values and violations are fine). Non-trivial = an edge-magnitude argument or an exponent literal. Distinct by function body.".into()
    }
    fn assumptions(&self) -> Vec<String> {
        vec!["a panic of a generated call is counted as inconclusive here and reported by C01 (type soundness / no crash), which runs the same generator".into(), "a CPU-budget overrun of a generated call is counted as inconclusive here (C10 owns termination)".into()]
    }
    fn families(&self, tier: Tier) -> Vec<Family> {
        let k = if tier == Tier::Quick { 1 } else { 25 };
        vec![
            Family {
                name: "lib",
                batches: 600 * k,
                batch_size: 60,
                tape_len: 120,
            },
            Family {
                name: "literal",
                batches: 60 * k,
                batch_size: 60,
                tape_len: 80,
            },
        ]
    }
    fn run_batch(&self, family: &str, subs: &[Vec<u8>], ctx: &mut Ctx) -> Result<Vec<CaseOutcome>, HarnessError> {
        let l = lib(ctx)?;
        let excluded = ctx.findings.excluded_with_prefix("fn:");
        let cases: Vec<ValCase> = subs
            .iter()
            .map(|s| {
                let mut t = Tape::new(s);
                if family == "literal" {
                    gen_literal_case(&mut t)
                } else {
                    gen_lib_case(&mut t, l, &excluded)
                }
            })
            .collect();
        run_val_batch_cfg(
            cases,
            ctx,
            &BatchCfg {
                mismatch_kind: "non_finite_float",
                cpu_s: 10,
                timeouts_inconclusive: true,
                panics_inconclusive: true,
            },
        )
    }
}
