//! C02 — core evaluation follows the documented semantics.
//!
//! Typed programs of the core fragment are generated (engine/src/reval.rs), printed in two
//! renderings (random sugar with minimal parentheses; fully parenthesised), run, and compared
//! binding by binding and output line by output line with the reference evaluator.
use crate::direct::end_failure;
use crate::dump::matches;
use crate::pool::HarnessError;
use crate::proto::*;
use crate::reval::*;
use crate::runner::*;
use crate::tape::{fnv, Tape};
use serde_json::{json, Value};
use std::collections::BTreeMap;

pub struct C02;

fn observed_vars(o: &Out) -> BTreeMap<String, Out> {
    let mut m = BTreeMap::new();
    if let Out::All { vars } = o {
        for (n, _, out) in vars {
            m.insert(n.clone(), (**out).clone());
        }
    }
    m
}

/// can `got` be obtained from the model's lines by dropping some of the optional ones?
fn output_matches(model: &[(String, bool)], got: &[&str]) -> bool {
    let n = model.len();
    let mut cur = vec![false; n + 1];
    cur[0] = true;
    // close under skipping optional lines
    let close = |v: &mut Vec<bool>| {
        for i in 0..n {
            if v[i] && model[i].1 {
                v[i + 1] = true;
            }
        }
    };
    close(&mut cur);
    for g in got {
        let mut next = vec![false; n + 1];
        for i in 0..n {
            if cur[i] && model[i].0 == *g {
                next[i + 1] = true;
            }
        }
        close(&mut next);
        cur = next;
        if !cur.iter().any(|x| *x) {
            return false;
        }
    }
    cur[n]
}

enum Verdict {
    Agree,
    /// agrees only when some lines printed by arguments after an error argument are dropped
    AgreeWithSkippedArguments,
    Differ(String),
}

/// compare the model's bindings / output with one program's slice of a run
fn compare(tops: &[(String, V)], model_out: &[(String, bool)], undocumented: &[usize], obs: &BTreeMap<String, Out>, got_out: &[&str]) -> Verdict {
    for (name, v) in tops {
        let want = v.dump();
        match obs.get(name) {
            Some(Out::Value { dump }) => {
                if matches!(v, V::Err(_)) {
                    return Verdict::Differ(format!("binding {name}: the reference evaluator gives an error value, the interpreter gives {dump}"));
                }
                if !matches(&want, dump) {
                    return Verdict::Differ(format!("binding {name}: expected {want}, got {dump}"));
                }
            }
            Some(Out::Error { msg }) => {
                if !matches!(v, V::Err(_)) {
                    return Verdict::Differ(format!("binding {name}: expected {want}, got the error value {msg:?}"));
                }
            }
            Some(other) => return Verdict::Differ(format!("binding {name}: expected {want}, got {}", crate::expect::brief(other))),
            None => return Verdict::Differ(format!("binding {name} is missing from the interpreter's top-level values")),
        }
    }
    let strict: Vec<&str> = model_out.iter().map(|l| l.0.as_str()).collect();
    if strict == got_out {
        return Verdict::Agree;
    }
    // arguments of a call whose callee is an error value: evaluated or not, both are accepted
    let without: Vec<&str> = model_out.iter().enumerate().filter(|(i, _)| !undocumented.contains(i)).map(|(_, l)| l.0.as_str()).collect();
    if without == got_out {
        return Verdict::Agree;
    }
    if output_matches(model_out, got_out) {
        return Verdict::AgreeWithSkippedArguments;
    }
    let i = strict.iter().zip(got_out.iter()).position(|(x, y)| x != y).unwrap_or(strict.len().min(got_out.len()));
    Verdict::Differ(format!(
        "output differs at line {}: expected {:?}, got {:?} (expected {} lines, got {})",
        i + 1,
        strict.get(i),
        got_out.get(i),
        strict.len(),
        got_out.len()
    ))
}

struct Case {
    prefix: String,
    src_a: String,
    src_b: String,
    tops: Vec<(String, V)>,
    out: Vec<(String, bool)>,
    undocumented: Vec<usize>,
    nontrivial: bool,
    classes: Vec<String>,
    exhausted: bool,
}

fn gen_case(sub: &[u8], prefix: &str) -> Case {
    let mut t = Tape::new(sub);
    let depth = 2 + t.below(4) as u32;
    let max_decls = 4 + t.below(12);
    let mut g = Gen::new(&mut t);
    g.prefix = prefix.to_string();
    let (prog, g) = g.program(max_decls, depth);
    let levels_used = g.n_ops_by_level.iter().filter(|n| **n > 0).count();
    let nontrivial = prog.decls.len() >= 3 && (levels_used >= 2 || g.n_short_circuit_effects >= 1);
    let mut classes = vec![
        format!("operator_levels:{}", levels_used.min(4)),
        format!("short_circuit_with_effect:{}", if g.n_short_circuit_effects > 0 { "yes" } else { "no" }),
        format!("sugar:{}", if g.n_sugar > 0 { "yes" } else { "no" }),
        format!("displays:{}", match g.n_displays { 0 => "0", 1..=3 => "1-3", _ => "4+" }),
    ];
    if prog.decls.iter().any(|d| matches!(d, Decl::Fn(f) if reval_is_operator_name(&f.name))) {
        classes.push("user_operator_overload".into());
    }
    let src_a = Printer { prog: &prog, full_parens: false }.program();
    let src_b = Printer { prog: &prog, full_parens: true }.program();
    let (tops, m) = run_model(&prog);
    Case { prefix: prefix.to_string(), src_a, src_b, exhausted: m.exhausted, undocumented: m.undocumented, out: m.out, tops, nontrivial, classes }
}

fn reval_is_operator_name(n: &str) -> bool {
    matches!(n, "add" | "sub" | "mul" | "bit_or" | "lt" | "eq" | "get" | "neg")
}

/// one job for several programs: each program is its own compile step, followed by a marker
/// binding whose display separates the outputs
fn batch_job(srcs: &[(String, String)]) -> Job {
    let mut j = Job::new("");
    j.srcs = vec![];
    j.steps = vec![];
    for (prefix, src) in srcs {
        j.srcs.push(src.clone());
        j.steps.push(Step::Compile { src: j.srcs.len() - 1 });
        j.srcs.push(format!("let {prefix}zz = display(\"#END {prefix}\");"));
        j.steps.push(Step::Compile { src: j.srcs.len() - 1 });
    }
    j.steps.push(Step::Instantiate);
    j.steps.push(Step::DumpAll);
    j.cpu_s = 30;
    j
}

/// the slice of the output that belongs to the program with this prefix
fn slice_output<'a>(output: &'a str, prefixes: &[String], k: usize) -> Vec<&'a str> {
    let lines: Vec<&str> = output.lines().collect();
    let end_marker = format!("#END {}", prefixes[k]);
    let end = lines.iter().position(|l| *l == end_marker).unwrap_or(lines.len());
    let start = if k == 0 {
        0
    } else {
        // after the closest earlier marker that is present
        (0..k).rev().find_map(|p| lines.iter().position(|l| *l == format!("#END {}", prefixes[p])).map(|i| i + 1)).unwrap_or(0)
    };
    lines[start.min(end)..end].to_vec()
}

impl Property for C02 {
    fn id(&self) -> &'static str {
        "C02"
    }
    fn rule(&self) -> String {
        "Typed programs of the core fragment: 0-2 structs and unions, 3-24 top-level declarations (let bindings of int / bool / str / sequence / optional / tuple / struct / union / function type and functions with 0-3 parameters, 0-2 of them with default values, bodies with local lets and nested functions), expressions of depth 2-6 over literals (ints up to 2^70), arithmetic / comparison / logic / bit operators in operator, call and method form, unary operators, index sugar, method calls, tuple items, struct fields, union variants with ?: and !:, array literals, + and push on sequences, some / none / value / has_value / or / map_or / then, if, if_error, lambdas applied immediately or through variables, user functions (also called with fewer arguments than parameters), a user overload of an operator name for a struct used through the operator, and display(..) sprinkled into arguments, defaults, bodies and BOTH alternatives of every short-circuit function with distinct payloads. Each program is printed twice (random sugar with minimal parentheses; every operator application parenthesised) and both renderings are run. Oracle: the reference evaluator (strict left-to-right evaluation exactly once, leftmost error wins, documented short-circuit functions only): every top-level binding equal (error values compared as 'is an error') and the output identical line by line. Mixed operators of the undocumented same-precedence groups (&& with ||, | & ^, chained comparisons) and a unary minus under ** are always parenthesised. Non-trivial = at least 3 declarations and (operators of at least 2 precedence levels printed as operators, or a short-circuit call whose alternatives both print).".into()
    }
    fn assumptions(&self) -> Vec<String> {
        vec![
            "operator grouping: ** (right) > * % > + - > | & ^ > comparisons > && ||, read from the book's list; relative precedence inside the last three groups is not documented and not exercised".into(),
            "floats and true division are left to C13 / C14 / C19; display is applied to int, bool and str values only".into(),
        ]
    }
    fn families(&self, tier: Tier) -> Vec<Family> {
        let k = if tier == Tier::Quick { 1 } else { 30 };
        vec![Family { name: "programs", batches: 1200 * k, batch_size: 6, tape_len: 1600 }]
    }
    fn run_batch(&self, _family: &str, subs: &[Vec<u8>], ctx: &mut Ctx) -> Result<Vec<CaseOutcome>, HarnessError> {
        let cases: Vec<Case> = subs.iter().enumerate().map(|(i, s)| gen_case(s, &format!("c{i}_"))).collect();
        let live: Vec<&Case> = cases.iter().filter(|c| !c.exhausted).collect();
        let prefixes: Vec<String> = live.iter().map(|c| c.prefix.clone()).collect();
        let ja = batch_job(&live.iter().map(|c| (c.prefix.clone(), c.src_a.clone())).collect::<Vec<_>>());
        let jb = batch_job(&live.iter().map(|c| (c.prefix.clone(), c.src_b.clone())).collect::<Vec<_>>());
        let (ra, rb) = (ctx.exec(&ja)?, ctx.exec(&jb)?);
        let batch_dead = end_failure(&ra).is_some()
            || end_failure(&rb).is_some()
            || ra.steps.iter().chain(rb.steps.iter()).any(|s| s.is_panic() || matches!(s, Out::Violation { .. }));
        let mut outs = vec![];
        let mut li = 0usize;
        for c in &cases {
            let mut o = CaseOutcome { key: fnv(c.src_a.as_bytes()), evals: 2, classes: c.classes.clone(), ..Default::default() };
            if c.exhausted {
                o.inconclusive = true;
                outs.push(o);
                continue;
            }
            let k = li;
            li += 1;
            // a crash / panic / violation anywhere in the batch: judge this program on its own
            let (single_a, single_b);
            let (ra1, rb1, pf, kk): (&Reply, &Reply, Vec<String>, usize) = if batch_dead {
                let ja1 = batch_job(&[(c.prefix.clone(), c.src_a.clone())]);
                let jb1 = batch_job(&[(c.prefix.clone(), c.src_b.clone())]);
                single_a = ctx.exec(&ja1)?;
                single_b = ctx.exec(&jb1)?;
                o.evals += 2;
                let mut dead = false;
                for (r, j) in [(&single_a, &ja1), (&single_b, &jb1)] {
                    if let Some(f) = end_failure(r) {
                        o.failures.push(f.direct(json!({"form": "no_crash", "job": j})));
                        dead = true;
                        break;
                    }
                    if let Some(p) = r.steps.iter().find(|s| s.is_panic()) {
                        o.failures.push(Failure::new("panic", format!("{}\n  {}", crate::expect::brief(p), j.srcs[0].replace('\n', "\n  "))).direct(json!({"form": "no_crash", "job": j})));
                        dead = true;
                        break;
                    }
                }
                if dead {
                    outs.push(o);
                    continue;
                }
                (&single_a, &single_b, vec![c.prefix.clone()], 0)
            } else {
                (&ra, &rb, prefixes.clone(), k)
            };
            // the generator must produce well-typed programs: a rejection is the generator's fault
            // (or a type-checker defect, which is C04's business) - counted, not judged
            if let Out::CompileError { class, text } = ra1.step(2 * kk) {
                o.inconclusive = true;
                o.classes.push(format!("generator_rejected:{class}"));
                if std::env::var("XV_DEBUG_C02").is_ok() {
                    eprintln!("REJECTED {class}: {}\n{}", text.lines().last().unwrap_or(""), c.src_a);
                }
                outs.push(o);
                continue;
            }
            let n_steps = ra1.steps.len();
            if let Out::Violation { v } = ra1.step(n_steps - 2) {
                o.inconclusive = true;
                o.classes.push(format!("violation:{}", v.split('(').next().unwrap_or("")));
                outs.push(o);
                continue;
            }
            o.nontrivial = c.nontrivial;
            let (obs_a, obs_b) = (observed_vars(ra1.step(ra1.steps.len() - 1)), observed_vars(rb1.step(rb1.steps.len() - 1)));
            let (out_a, out_b) = (slice_output(&ra1.output, &pf, kk), slice_output(&rb1.output, &pf, kk));
            let va = compare(&c.tops, &c.out, &c.undocumented, &obs_a, &out_a);
            let vb = compare(&c.tops, &c.out, &c.undocumented, &obs_b, &out_b);
            let strict: Vec<String> = c.out.iter().map(|l| l.0.clone()).collect();
            let mk_direct = |src: &str| {
                json!({"form": "c02", "job": batch_job(&[(c.prefix.clone(), src.to_string())]), "prefix": c.prefix,
                       "bindings": c.tops.iter().map(|(n, v)| json!([n, v.dump(), matches!(v, V::Err(_))])).collect::<Vec<_>>(),
                       "output": c.out.iter().map(|(l, opt)| json!([l, opt])).collect::<Vec<_>>()})
            };
            match (&va, &vb) {
                (Verdict::Differ(why), _) => {
                    o.failures.push(
                        Failure::new("differs_from_reference", format!("{why}\n  {}\n  expected output: {:?}\n  observed output: {:?}", c.src_a.replace('\n', "\n  "), strict, out_a)).direct(mk_direct(&c.src_a)),
                    );
                }
                (_, Verdict::Differ(why)) => {
                    o.failures.push(
                        Failure::new(
                            "parenthesisation_changes_meaning",
                            format!("the fully parenthesised rendering differs from the reference (the minimal one agrees): {why}\n  {}\n  --- minimal ---\n  {}", c.src_b.replace('\n', "\n  "), c.src_a.replace('\n', "\n  ")),
                        )
                        .direct(mk_direct(&c.src_b)),
                    );
                }
                (Verdict::AgreeWithSkippedArguments, _) | (_, Verdict::AgreeWithSkippedArguments) => {
                    o.classes.push("arguments_after_error_skipped".into());
                    o.failures.push(
                        Failure::new(
                            "arguments_after_error_skipped",
                            format!("a builtin call / literal / constructor did not evaluate the arguments that follow an error argument (their display output is missing)\n  {}\n  expected output: {:?}\n  observed output: {:?}", c.src_a.replace('\n', "\n  "), strict, out_a),
                        )
                        .direct(mk_direct(&c.src_a)),
                    );
                }
                (Verdict::Agree, Verdict::Agree) => {}
            }
            if k % 4 == 0 {
                o.sample = Some(json!({"program": c.src_a, "output": strict, "bindings": c.tops.len()}));
            }
            outs.push(o);
        }
        Ok(outs)
    }
    fn check_direct(&self, direct: &Value, ctx: &mut Ctx) -> Result<Option<Failure>, HarnessError> {
        if direct["form"].as_str() != Some("c02") {
            return crate::direct::check_generic(direct, ctx);
        }
        let job: Job = serde_json::from_value(direct["job"].clone()).map_err(|e| HarnessError(e.to_string()))?;
        let r = ctx.exec(&job)?;
        if let Some(f) = end_failure(&r) {
            return Ok(Some(f.direct(direct.clone())));
        }
        let obs = observed_vars(r.step(r.steps.len() - 1));
        for b in direct["bindings"].as_array().cloned().unwrap_or_default() {
            let name = b[0].as_str().unwrap_or("");
            let is_err = b[2].as_bool().unwrap_or(false);
            let bad = match obs.get(name) {
                Some(Out::Value { dump }) => is_err || !matches(&b[1], dump),
                Some(Out::Error { .. }) => !is_err,
                _ => true,
            };
            if bad {
                return Ok(Some(Failure::new("differs_from_reference", format!("binding {name}: expected {}, got {:?}", b[1], obs.get(name).map(crate::expect::brief))).direct(direct.clone())));
            }
        }
        let model: Vec<(String, bool)> = direct["output"]
            .as_array()
            .cloned()
            .unwrap_or_default()
            .iter()
            .map(|l| (l[0].as_str().unwrap_or("").to_string(), l[1].as_bool().unwrap_or(false)))
            .collect();
        let prefix = direct["prefix"].as_str().unwrap_or("").to_string();
        let got = slice_output(&r.output, &[prefix], 0);
        let strict: Vec<&str> = model.iter().map(|l| l.0.as_str()).collect();
        if strict == got {
            return Ok(None);
        }
        if output_matches(&model, &got) {
            return Ok(Some(Failure::new("arguments_after_error_skipped", format!("output: expected {strict:?}, got {got:?}")).direct(direct.clone())));
        }
        Ok(Some(Failure::new("differs_from_reference", format!("output: expected {strict:?}, got {got:?}")).direct(direct.clone())))
    }
}
