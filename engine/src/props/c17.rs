//! C17 — mappings and sets are finite maps under any consistent hash (model-based histories).
use super::common::*;
use crate::dump::*;
use crate::expect::Expect;
use crate::pool::HarnessError;
use crate::runner::*;
use crate::tape::Tape;
use serde_json::Value;
use std::collections::BTreeMap;

pub struct C17;

const UNIVERSE: i64 = 12;
const SENT: i64 = -999;

#[derive(Clone, Copy, Debug)]
struct Cfg {
    /// hash = k % h (0 = identity hash, -1 = library default functions)
    h: i64,
    /// equality = congruence modulo m (0 = identity)
    m: i64,
}

impl Cfg {
    fn class(&self, k: i64) -> i64 {
        if self.m > 0 {
            k.rem_euclid(self.m)
        } else {
            k
        }
    }
    fn map_ctor(&self) -> String {
        if self.h < 0 {
            return "mapping<int>()".into();
        }
        format!("mapping({}, {})", self.hash_src(), self.eq_src())
    }
    fn set_ctor(&self) -> String {
        if self.h < 0 {
            return "set<int>()".into();
        }
        format!("set({}, {})", self.hash_src(), self.eq_src())
    }
    fn hash_src(&self) -> String {
        if self.h == 0 {
            "(k: int) -> { k }".into()
        } else {
            format!("(k: int) -> {{ k % {} }}", self.h)
        }
    }
    fn eq_src(&self) -> String {
        if self.m == 0 {
            "(a: int, b: int) -> { a == b }".into()
        } else {
            format!("(a: int, b: int) -> {{ a % {0} == b % {0} }}", self.m)
        }
    }
}

/// (hash modulus, equality modulus): equal keys hash equally because h divides m
const CFGS: &[(i64, i64)] = &[
    (-1, 0),
    (0, 0),
    (1, 0),
    (2, 0),
    (3, 0),
    (4, 0),
    (1, 2),
    (1, 3),
    (1, 5),
    (2, 2),
    (2, 4),
    (2, 6),
    (3, 3),
    (3, 6),
    (4, 4),
    (4, 8),
    (1, 1),
];

type MMap = Result<BTreeMap<i64, i64>, ()>; // class -> value
type MSet = Result<std::collections::BTreeSet<i64>, ()>; // classes

fn lit(v: i64) -> String {
    if v < 0 {
        format!("({v})")
    } else {
        v.to_string()
    }
}

struct Hist<'a, 'b> {
    t: &'a mut Tape<'b>,
    cfg: Cfg,
    lines: Vec<String>,
    maps: Vec<(String, MMap)>,
    sets: Vec<(String, MSet)>,
    probes: Vec<(String, i64)>,
    ops: Vec<&'static str>,
    removals: usize,
    collisions: bool,
}

impl<'a, 'b> Hist<'a, 'b> {
    fn key(&mut self) -> i64 {
        self.t.below(UNIVERSE as usize) as i64
    }
    fn val(&mut self) -> i64 {
        self.t.range(0, 50)
    }

    fn new_map(&mut self, src: String, m: MMap, op: &'static str) {
        let name = format!("m{}", self.maps.len());
        self.lines.push(format!("let {name}: Mapping<int, int> = {src};"));
        self.maps.push((name, m));
        self.ops.push(op);
    }
    fn new_set(&mut self, src: String, s: MSet, op: &'static str) {
        let name = format!("s{}", self.sets.len());
        self.lines.push(format!("let {name}: Set<int> = {src};"));
        self.sets.push((name, s));
        self.ops.push(op);
    }

    fn pick_map(&mut self) -> usize {
        let n = self.maps.len();
        // mostly the newest version, sometimes a stale one (persistence)
        if self.t.below(3) != 0 {
            n - 1
        } else {
            self.t.below(n)
        }
    }
    fn pick_set(&mut self) -> usize {
        let n = self.sets.len();
        if self.t.below(3) != 0 {
            n - 1
        } else {
            self.t.below(n)
        }
    }

    fn pairs(&mut self) -> Vec<(i64, i64)> {
        (0..self.t.below(5)).map(|_| (self.key(), self.val())).collect()
    }
    fn keys(&mut self) -> Vec<i64> {
        (0..self.t.below(6)).map(|_| self.key()).collect()
    }

    fn map_step(&mut self) {
        let i = self.pick_map();
        let (name, m) = self.maps[i].clone();
        let cfg = self.cfg;
        let Ok(mm) = m else {
            // an error value propagates
            self.new_map(format!("{name}.set(1, 1)"), Err(()), "on_error");
            return;
        };
        match self.t.below(13) {
            12 => {
                // insert a fresh key and take it out again: equal to the original, and must
                // hash like it
                let (k, v) = (self.key(), self.val());
                if mm.contains_key(&cfg.class(k)) {
                    return;
                }
                let rm = if self.t.bool() { "discard" } else { "pop" };
                self.removals += 1;
                self.new_map(format!("{name}.set({k}, {v}).{rm}({k})"), Ok(mm.clone()), "insert_remove");
                let newest = self.maps.last().unwrap().0.clone();
                self.probes.push((format!("if({newest} == {name}, 1, 0)"), 1));
                self.probes.push((format!("if(hash({newest}) == hash({name}), 1, 0)"), 1));
                self.ops.push("hash_eq");
            }
            0 | 1 | 2 => {
                let (k, v) = (self.key(), self.val());
                let mut r = mm.clone();
                if r.contains_key(&cfg.class(k)) {
                    self.collisions = true;
                }
                r.insert(cfg.class(k), v);
                self.new_map(format!("{name}.set({k}, {v})"), Ok(r), "set");
            }
            3 => {
                let (k, v) = (self.key(), self.val());
                let mut r = mm.clone();
                r.entry(cfg.class(k)).or_insert(v);
                self.new_map(format!("{name}.set_default({k}, {v})"), Ok(r), "set_default");
            }
            4 => {
                let k = self.key();
                let mut r = mm.clone();
                let res = if r.remove(&cfg.class(k)).is_some() { Ok(r) } else { Err(()) };
                self.removals += 1;
                self.new_map(format!("{name}.pop({k})"), res, "pop");
            }
            5 => {
                let k = self.key();
                let mut r = mm.clone();
                r.remove(&cfg.class(k));
                self.removals += 1;
                self.new_map(format!("{name}.discard({k})"), Ok(r), "discard");
            }
            6 => {
                let ps = self.pairs();
                let mut r = mm.clone();
                for (k, v) in &ps {
                    r.insert(cfg.class(*k), *v);
                }
                let lit_pairs = if ps.is_empty() {
                    "take([(0, 0)], 0)".to_string()
                } else {
                    format!(
                        "[{}]",
                        ps.iter().map(|(k, v)| format!("({k}, {v})")).collect::<Vec<_>>().join(", ")
                    )
                };
                let src = if self.t.bool() {
                    format!("{name}.update({lit_pairs}.to_generator())")
                } else {
                    format!("{name}.update({lit_pairs})")
                };
                self.new_map(src, Ok(r), "update_pairs");
            }
            7 => {
                let j = self.pick_map();
                let (oname, om) = self.maps[j].clone();
                let res = match om {
                    Err(()) => return,
                    Ok(o) => {
                        let mut r = mm.clone();
                        for (k, v) in o {
                            r.insert(k, v);
                        }
                        Ok(r)
                    }
                };
                self.new_map(format!("{name}.update({oname})"), res, "update_mapping");
            }
            8 => {
                let ks = self.keys();
                let mut r = mm.clone();
                for k in &ks {
                    let c = cfg.class(*k);
                    match r.get(&c).copied() {
                        Some(v) => r.insert(c, v + 100),
                        // on_vacant sees the key that was offered
                        None => r.insert(c, k * 10),
                    };
                }
                let ksrc = if ks.is_empty() {
                    "take([0], 0)".to_string()
                } else {
                    format!("[{}]", ks.iter().map(|k| k.to_string()).collect::<Vec<_>>().join(", "))
                };
                let gen = if self.t.bool() { ".to_generator()" } else { "" };
                self.new_map(
                    format!("{name}.update_from_keys({ksrc}{gen}, (k: int) -> {{ k * 10 }}, (k: int, v: int) -> {{ v + 100 }})"),
                    Ok(r),
                    "update_from_keys",
                );
            }
            9 => {
                let ks = self.keys();
                let mut r = mm.clone();
                for k in &ks {
                    *r.entry(cfg.class(*k)).or_insert(0) += 1;
                }
                let ksrc = if ks.is_empty() {
                    "take([0], 0)".to_string()
                } else {
                    format!("[{}]", ks.iter().map(|k| k.to_string()).collect::<Vec<_>>().join(", "))
                };
                self.new_map(format!("{name}.update_counter({ksrc}.to_generator())"), Ok(r), "update_counter");
            }
            10 => {
                let r = mm.iter().map(|(k, v)| (*k, v * 2 + 1)).collect();
                self.new_map(format!("{name}.map_values((v: int) -> {{ v * 2 + 1 }})"), Ok(r), "map_values");
            }
            _ => {
                self.new_map(format!("{name}.clear()"), Ok(BTreeMap::new()), "clear");
            }
        }
    }

    fn map_probe(&mut self) {
        let i = self.pick_map();
        let (name, m) = self.maps[i].clone();
        let cfg = self.cfg;
        let Ok(mm) = m else {
            self.probes.push((format!("len({name})"), SENT));
            return;
        };
        match self.t.below(8) {
            0 => {
                let k = self.key();
                self.probes
                    .push((format!("{name}.get({k})"), mm.get(&cfg.class(k)).copied().unwrap_or(SENT)));
            }
            1 => {
                let (k, d) = (self.key(), self.val());
                self.probes.push((
                    format!("{name}.get({k}, {d})"),
                    mm.get(&cfg.class(k)).copied().unwrap_or(d),
                ));
            }
            2 => {
                let k = self.key();
                self.probes.push((
                    format!("{name}[{k}]"),
                    mm.get(&cfg.class(k)).copied().unwrap_or(SENT),
                ));
            }
            3 => {
                let k = self.key();
                self.probes.push((
                    format!("if({name}.contains({k}), 1, 0)"),
                    mm.contains_key(&cfg.class(k)) as i64,
                ));
            }
            4 | 5 => {
                let j = self.pick_map();
                let (oname, om) = self.maps[j].clone();
                if let Ok(o) = om {
                    let eq = o == mm;
                    self.probes.push((format!("if({name} == {oname}, 1, 0)"), eq as i64));
                    if eq && i != j {
                        // equal collections hash equally, whatever their history
                        self.probes.push((format!("if(hash({name}) == hash({oname}), 1, 0)"), 1));
                        self.ops.push("hash_eq");
                    }
                }
            }
            6 => {
                if !mm.is_empty() {
                    let best = mm.values().max().copied().unwrap();
                    let n = mm.values().filter(|v| **v == best).count() as i64;
                    self.probes
                        .push((format!("counter_mode({name})::item1 * 100 + len(counter_mode({name})::item0)"), best * 100 + n));
                }
            }
            _ => {
                let h = format!("hash({name})");
                self.probes
                    .push((format!("if({h} >= 0 && {h} < 18446744073709551616, 1, 0)"), 1));
            }
        }
    }

    fn set_step(&mut self) {
        let i = self.pick_set();
        let (name, s) = self.sets[i].clone();
        let cfg = self.cfg;
        let Ok(ss) = s else {
            self.new_set(format!("{name}.add(1)"), Err(()), "on_error");
            return;
        };
        match self.t.below(12) {
            11 => {
                let k = self.key();
                if ss.contains(&cfg.class(k)) {
                    return;
                }
                let rm = if self.t.bool() { "discard" } else { "remove" };
                self.removals += 1;
                self.new_set(format!("{name}.add({k}).{rm}({k})"), Ok(ss.clone()), "insert_remove");
                let newest = self.sets.last().unwrap().0.clone();
                self.probes.push((format!("if({newest} == {name}, 1, 0)"), 1));
                self.probes.push((format!("if(hash({newest}) == hash({name}), 1, 0)"), 1));
                self.ops.push("hash_eq");
            }
            0 | 1 | 2 => {
                let k = self.key();
                let mut r = ss.clone();
                if !r.insert(cfg.class(k)) {
                    self.collisions = true;
                }
                self.new_set(format!("{name}.add({k})"), Ok(r), "add");
            }
            3 => {
                let k = self.key();
                let mut r = ss.clone();
                let res = if r.remove(&cfg.class(k)) { Ok(r) } else { Err(()) };
                self.removals += 1;
                self.new_set(format!("{name}.remove({k})"), res, "remove");
            }
            4 => {
                let k = self.key();
                let mut r = ss.clone();
                r.remove(&cfg.class(k));
                self.removals += 1;
                self.new_set(format!("{name}.discard({k})"), Ok(r), "discard");
            }
            5 => {
                let ks = self.keys();
                let mut r = ss.clone();
                for k in &ks {
                    r.insert(cfg.class(*k));
                }
                let ksrc = if ks.is_empty() {
                    "take([0], 0)".to_string()
                } else {
                    format!("[{}]", ks.iter().map(|k| k.to_string()).collect::<Vec<_>>().join(", "))
                };
                let gen = if self.t.bool() { ".to_generator()" } else { "" };
                self.new_set(format!("{name}.update({ksrc}{gen})"), Ok(r), "update");
            }
            6 => self.new_set(format!("{name}.clear()"), Ok(Default::default()), "clear"),
            n @ 7..=10 => {
                let j = self.pick_set();
                let (oname, os) = self.sets[j].clone();
                let Ok(o) = os else { return };
                let (op, r, tag): (&str, std::collections::BTreeSet<i64>, &'static str) = match n {
                    7 => ("|", ss.union(&o).copied().collect(), "union"),
                    8 => ("&", ss.intersection(&o).copied().collect(), "intersection"),
                    9 => ("-", ss.difference(&o).copied().collect(), "difference"),
                    _ => ("^", ss.symmetric_difference(&o).copied().collect(), "symmetric_difference"),
                };
                self.new_set(format!("{name} {op} {oname}"), Ok(r), tag);
            }
            _ => {}
        }
    }

    fn set_probe(&mut self) {
        let i = self.pick_set();
        let (name, s) = self.sets[i].clone();
        let cfg = self.cfg;
        let Ok(ss) = s else {
            self.probes.push((format!("len({name})"), SENT));
            return;
        };
        let j = self.pick_set();
        let (oname, os) = self.sets[j].clone();
        match (self.t.below(9), os) {
            (0, _) => {
                let k = self.key();
                self.probes.push((
                    format!("if({name}.contains({k}), 1, 0)"),
                    ss.contains(&cfg.class(k)) as i64,
                ));
            }
            (1, Ok(o)) => {
                let eq = ss == o;
                self.probes.push((format!("if({name} == {oname}, 1, 0)"), eq as i64));
                if eq && i != j {
                    self.probes.push((format!("if(hash({name}) == hash({oname}), 1, 0)"), 1));
                    self.ops.push("hash_eq");
                }
            }
            (2, Ok(o)) => self.probes.push((
                format!("if({name} < {oname}, 1, 0)"),
                (ss.is_subset(&o) && ss != o) as i64,
            )),
            (3, Ok(o)) => self
                .probes
                .push((format!("if({name} <= {oname}, 1, 0)"), ss.is_subset(&o) as i64)),
            (4, Ok(o)) => self.probes.push((
                format!("if({name} > {oname}, 1, 0)"),
                (ss.is_superset(&o) && ss != o) as i64,
            )),
            (5, Ok(o)) => self
                .probes
                .push((format!("if({name} >= {oname}, 1, 0)"), ss.is_superset(&o) as i64)),
            (6, Ok(o)) => self.probes.push((
                format!("if({name}.is_disjoint({oname}), 1, 0)"),
                ss.is_disjoint(&o) as i64,
            )),
            (7, _) => {
                let h = format!("hash({name})");
                self.probes
                    .push((format!("if({h} >= 0 && {h} < 18446744073709551616, 1, 0)"), 1));
            }
            _ => self
                .probes
                .push((format!("len({name}.to_array())"), ss.len() as i64)),
        }
    }
}

fn obs_map_src(name: &str) -> String {
    let lookups: Vec<String> = (0..UNIVERSE).map(|k| format!("or(lookup({name}, {k}), -1)")).collect();
    format!(
        "if_error((len({name}), [{}], {name}.values().reduce(0, (a: int, x: int) -> {{ a + x }}), len({name}.to_generator())), ({SENT}, take([0], 0), 0, 0))",
        lookups.join(", ")
    )
}

fn obs_map_model(m: &MMap, cfg: Cfg) -> Value {
    match m {
        Err(()) => d_tuple(vec![d_i64(SENT), d_seq(vec![]), d_i64(0), d_i64(0)]),
        Ok(mm) => d_tuple(vec![
            d_i64(mm.len() as i64),
            d_seq((0..UNIVERSE).map(|k| d_i64(mm.get(&cfg.class(k)).copied().unwrap_or(-1))).collect()),
            d_i64(mm.values().sum()),
            d_i64(mm.len() as i64),
        ]),
    }
}

fn obs_set_src(name: &str) -> String {
    let tests: Vec<String> = (0..UNIVERSE).map(|k| format!("if(contains({name}, {k}), 1, 0)")).collect();
    format!(
        "if_error((len({name}), [{}], len({name}.to_generator())), ({SENT}, take([0], 0), 0))",
        tests.join(", ")
    )
}

fn obs_set_model(s: &MSet, cfg: Cfg) -> Value {
    match s {
        Err(()) => d_tuple(vec![d_i64(SENT), d_seq(vec![]), d_i64(0)]),
        Ok(ss) => d_tuple(vec![
            d_i64(ss.len() as i64),
            d_seq((0..UNIVERSE).map(|k| d_i64(ss.contains(&cfg.class(k)) as i64)).collect()),
            d_i64(ss.len() as i64),
        ]),
    }
}

fn gen_case(t: &mut Tape, sets: bool) -> ValCase {
    let (h, m) = *t.pick(CFGS);
    let cfg = Cfg { h, m };
    let mut hist = Hist {
        t,
        cfg,
        lines: vec![],
        maps: vec![],
        sets: vec![],
        probes: vec![],
        ops: vec![],
        removals: 0,
        collisions: h > 0 || m > 0,
    };
    if sets {
        hist.new_set(cfg.set_ctor(), Ok(Default::default()), "new");
        if hist.t.bool() {
            hist.new_set(cfg.set_ctor(), Ok(Default::default()), "new");
        }
    } else {
        hist.new_map(cfg.map_ctor(), Ok(BTreeMap::new()), "new");
        if hist.t.below(3) == 0 {
            hist.new_map(cfg.map_ctor(), Ok(BTreeMap::new()), "new");
        }
    }
    let n = 1 + hist.t.below(25);
    for _ in 0..n {
        let probe = hist.t.below(4) == 0;
        match (sets, probe) {
            (true, false) => {
                if hist.sets.len() < 18 {
                    hist.set_step()
                }
            }
            (true, true) => hist.set_probe(),
            (false, false) => {
                if hist.maps.len() < 18 {
                    hist.map_step()
                }
            }
            (false, true) => hist.map_probe(),
        }
    }
    // every version ever produced is observed at the end, after all later updates
    let mut parts = vec![];
    let mut types = vec![];
    let mut expected = vec![];
    for (name, m) in &hist.maps {
        parts.push(obs_map_src(name));
        types.push("(int, Sequence<int>, int, int)".to_string());
        expected.push(obs_map_model(m, cfg));
    }
    for (name, s) in &hist.sets {
        parts.push(obs_set_src(name));
        types.push("(int, Sequence<int>, int)".to_string());
        expected.push(obs_set_model(s, cfg));
    }
    for (i, (src, e)) in hist.probes.iter().enumerate() {
        hist.lines.push(format!("let p{i} = {src};"));
        parts.push(format!("if_error(p{i}, {SENT})"));
        types.push("int".into());
        expected.push(d_i64(*e));
    }
    let (ret, tuple) = if parts.len() == 1 {
        (format!("({})", types[0]), format!("({},)", parts[0]))
    } else {
        (format!("({})", types.join(", ")), format!("({})", parts.join(",\n   ")))
    };
    let body = format!("{}\n  {}", hist.lines.join("\n  "), tuple);
    let mut c = ValCase::new(&ret, body, Expect::Dump { dump: d_tuple(expected) });
    let versions = hist.maps.len() + hist.sets.len();
    c.nontrivial = (hist.collisions && hist.removals >= 1) || versions >= 4;
    c.describe = format!(
        "{} history, hash %{} eq %{}: {}",
        if sets { "set" } else { "mapping" },
        h,
        m,
        hist.ops.join(",")
    );
    for o in &hist.ops {
        c = c.class(format!("op:{o}"));
    }
    c = c.class(format!("cfg:h{h}m{m}"));
    c.key("ops", hist.ops.join(",")).key("kind", if sets { "set" } else { "mapping" })
}

impl Property for C17 {
    fn id(&self) -> &'static str {
        "C17"
    }
    fn rule(&self) -> String {
        "A history of 1-25 operations on mappings (set, set_default, pop, discard, update from pairs / generator / mapping, update_from_keys, update_counter, map_values, clear; probes get(2,3), index sugar, contains, ==, hash, counter_mode) or sets (add, remove, discard, update, clear, | & - ^; probes contains, ==, <, <=, >, >=, is_disjoint, hash, to_array) over the key universe 0..11, under a configuration (hash k%h with h in {identity,1,2,3,4} or the library default; equality identity or congruence mod m with h | m so that equal keys hash equally). EVERY version is bound to a name and observed at the end, after all later updates: len, lookup/contains of every key of the universe, sum of values, number of entries. Oracle: an association-list model over equivalence classes; versions the model considers equal must also hash equally. Non-trivial = (colliding configuration and at least one removal) or at least 4 versions. Distinct by function body.".into()
    }
    fn assumptions(&self) -> Vec<String> {
        vec![
            "keys are compared through lookups of the whole universe, so which representative of a class is stored is not observed".into(),
            "keys and values are ints".into(),
        ]
    }
    fn families(&self, tier: Tier) -> Vec<Family> {
        let k = if tier == Tier::Quick { 1 } else { 25 };
        vec![
            Family {
                name: "mappings",
                batches: 450 * k,
                batch_size: 12,
                tape_len: 140,
            },
            Family {
                name: "sets",
                batches: 350 * k,
                batch_size: 12,
                tape_len: 140,
            },
        ]
    }
    fn run_batch(&self, family: &str, subs: &[Vec<u8>], ctx: &mut Ctx) -> Result<Vec<CaseOutcome>, HarnessError> {
        let cases: Vec<ValCase> = subs
            .iter()
            .map(|s| {
                let mut t = Tape::new(s);
                gen_case(&mut t, family == "sets")
            })
            .collect();
        run_val_batch(cases, ctx, "value_mismatch")
    }
}
