//! C04 — static checking accepts exactly the assignable programs.
//!
//! (required type, supplied expression of a known model type) pairs are placed in every
//! syntactic position that requires a type; the compiler's verdict is compared with R-type
//! (`crate::rtype`).  Inference cases compare the static type the compiler records for a
//! top-level binding with R-type's least common type / generic binding.
use crate::direct::end_failure;
use crate::gstd::Ty;
use crate::pool::{par_exec, HarnessError};
use crate::proto::*;
use crate::rtype::*;
use crate::runner::*;
use crate::tape::{fnv, Tape};
use serde_json::{json, Value};
use std::collections::{BTreeMap, HashMap};

pub struct C04;

pub const PRELUDE: &str = "struct S0(a: int)\nstruct S1<A>(a: A)\nstruct S2<A, B>(a: A, b: B)\nunion U0(a: int, b: str)\nunion U1<A>(a: A, b: int)\nunion U2<A, B>(a: A, b: B)\n";

fn nat(n: &str, a: Vec<Ty>) -> Ty {
    Ty::Native(n.into(), a)
}
fn st(n: &str, a: Vec<Ty>) -> Ty {
    Ty::Compound("struct".into(), n.into(), a)
}
fn un(n: &str, a: Vec<Ty>) -> Ty {
    Ty::Compound("union".into(), n.into(), a)
}
fn var(n: &str) -> Ty {
    Ty::Var(n.into())
}

/// all types with exactly one constructor over the given leaves
fn depth1(leaves: &[Ty]) -> Vec<Ty> {
    let mut out = vec![];
    for n in ["Sequence", "Optional", "Generator", "Set", "Stack"] {
        for l in leaves {
            out.push(nat(n, vec![l.clone()]));
        }
    }
    for k in leaves {
        for v in leaves {
            out.push(nat("Mapping", vec![k.clone(), v.clone()]));
            out.push(Ty::Tuple(vec![k.clone(), v.clone()]));
            out.push(st("S2", vec![k.clone(), v.clone()]));
            out.push(un("U2", vec![k.clone(), v.clone()]));
            out.push(Ty::Callable(vec![k.clone()], Box::new(v.clone())));
        }
    }
    out.push(Ty::Tuple(vec![]));
    for l in leaves {
        out.push(Ty::Tuple(vec![l.clone()]));
        out.push(st("S1", vec![l.clone()]));
        out.push(un("U1", vec![l.clone()]));
        out.push(Ty::Callable(vec![], Box::new(l.clone())));
    }
    // three-component tuples and two-parameter callables over a reduced leaf set
    let few: Vec<Ty> = leaves.iter().filter(|l| matches!(l, Ty::Int | Ty::Var(_) | Ty::Unknown)).cloned().collect();
    for a in &few {
        for b in &few {
            for c in &few {
                out.push(Ty::Tuple(vec![a.clone(), b.clone(), c.clone()]));
                out.push(Ty::Callable(vec![a.clone(), b.clone()], Box::new(c.clone())));
            }
        }
    }
    out
}

fn base_leaves() -> Vec<Ty> {
    vec![Ty::Int, Ty::Str, st("S0", vec![]), var("T")]
}

/// can the type be written in source (no unknown)?
fn spellable(t: &Ty) -> bool {
    !has_unknown(t)
}

#[derive(Default)]
struct Wit {
    params: Vec<(String, Ty)>,
}

impl Wit {
    fn param(&mut self, t: &Ty) -> String {
        if let Some((n, _)) = self.params.iter().find(|(_, x)| x == t) {
            return n.clone();
        }
        let n = format!("p{}", self.params.len());
        self.params.push((n.clone(), t.clone()));
        n
    }

    /// an expression whose static type is `t` (by the documented inference rules).
    /// `closed`: build values instead of referring to wrapper parameters (no generic variables).
    fn expr(&mut self, t: &Ty, closed: bool) -> Option<String> {
        if !closed && spellable(t) {
            return Some(self.param(t));
        }
        Some(match t {
            Ty::Unknown => "error(\"w\")".into(),
            Ty::Int => "7".into(),
            Ty::Str => "\"s\"".into(),
            Ty::Float => "1.5".into(),
            Ty::Bool => "true".into(),
            Ty::Var(_) => return None,
            Ty::Native(n, a) => match (n.as_str(), a.as_slice()) {
                ("Sequence", [Ty::Unknown]) => "[]".into(),
                ("Sequence", [x]) => format!("[{}]", self.expr(x, closed)?),
                ("Optional", [Ty::Unknown]) => "none()".into(),
                ("Optional", [x]) => format!("some({})", self.expr(x, closed)?),
                ("Generator", [Ty::Unknown]) => "[].to_generator()".into(),
                ("Generator", [x]) => format!("[{}].to_generator()", self.expr(x, closed)?),
                ("Stack", [Ty::Unknown]) => "stack()".into(),
                ("Stack", [x]) => format!("stack().push({})", self.expr(x, closed)?),
                ("Set", [Ty::Int]) => "set<int>().add(7)".into(),
                ("Set", [Ty::Str]) => "set<str>().add(\"s\")".into(),
                ("Mapping", [Ty::Int, Ty::Unknown]) => "mapping<int>()".into(),
                ("Mapping", [Ty::Str, Ty::Unknown]) => "mapping<str>()".into(),
                ("Mapping", [Ty::Int, v]) => format!("mapping<int>().set(1, {})", self.expr(v, closed)?),
                ("Mapping", [Ty::Str, v]) => format!("mapping<str>().set(\"k\", {})", self.expr(v, closed)?),
                _ => return None,
            },
            Ty::Tuple(a) => {
                let parts: Option<Vec<String>> = a.iter().map(|x| self.expr(x, closed)).collect();
                let parts = parts?;
                match parts.len() {
                    0 => "()".into(),
                    1 => format!("({},)", parts[0]),
                    _ => format!("({})", parts.join(", ")),
                }
            }
            Ty::Compound(_, n, a) => match (n.as_str(), a.as_slice()) {
                ("S0", []) => "S0(1)".into(),
                ("U0", []) => "U0::a(1)".into(),
                ("S1", [x]) => format!("S1({})", self.expr(x, closed)?),
                ("S2", [x, y]) => format!("S2({}, {})", self.expr(x, closed)?, self.expr(y, closed)?),
                ("U1", [Ty::Unknown]) => "U1::b(3)".into(),
                ("U1", [x]) => format!("U1::a({})", self.expr(x, closed)?),
                ("U2", [x, Ty::Unknown]) => format!("U2::a({})", self.expr(x, closed)?),
                ("U2", [Ty::Unknown, y]) => format!("U2::b({})", self.expr(y, closed)?),
                _ => return None,
            },
            Ty::Callable(ps, r) => {
                if ps.iter().any(|p| !spellable(p)) {
                    return None;
                }
                let mut vars = vec![];
                ps.iter().for_each(|p| vars_of(p, &mut vars));
                if closed && !vars.is_empty() {
                    return None;
                }
                let params: Vec<String> = ps.iter().enumerate().map(|(i, p)| format!("a{i}: {}", p.src())).collect();
                format!("({}) -> {{ {} }}", params.join(", "), self.expr(r, closed)?)
            }
        })
    }
}

#[derive(Clone, Debug)]
enum Want {
    Accept,
    Reject(Vec<&'static str>),
    /// accepted, and the static type of the named top-level variable is this
    Type(String, Ty),
}

#[derive(Clone, Debug)]
pub struct Snip {
    pub src: String,
    want: Want,
    position: &'static str,
    req: String,
    sup: String,
    key: u64,
    nontrivial: bool,
    note: String,
}

const POSITIONS: &[&str] = &["let", "return", "argument", "callable_argument", "field", "variant", "default"];

fn generics_decl(ts: &[&Ty]) -> String {
    let mut vars = vec![];
    ts.iter().for_each(|t| vars_of(t, &mut vars));
    if vars.is_empty() {
        String::new()
    } else {
        format!("<{}>", vars.join(", "))
    }
}

/// place (req, sup) in `position`; None if the position cannot host the pair
fn place(req: &Ty, sup: &Ty, position: &'static str, closed: bool, n: usize) -> Option<Snip> {
    if !spellable(req) {
        return None;
    }
    let mut w = Wit::default();
    let closed = closed || position == "default";
    let e = w.expr(sup, closed)?;
    let ok = assignable(req, sup);
    let mut all: Vec<&Ty> = vec![req, sup];
    let ptys: Vec<Ty> = w.params.iter().map(|(_, t)| t.clone()).collect();
    all.extend(ptys.iter());
    let mut vars = vec![];
    all.iter().for_each(|t| vars_of(t, &mut vars));
    let g = generics_decl(&all);
    let params: Vec<String> = w.params.iter().map(|(n, t)| format!("{n}: {}", t.src())).collect();
    let ps = params.join(", ");
    let r = req.src();
    let (src, classes): (String, Vec<&'static str>) = match position {
        "let" => (format!("fn w{n}{g}({ps}) -> int {{ let q: {r} = {e}; 0 }}"), vec!["VariableTypeMismatch"]),
        "return" => (format!("fn w{n}{g}({ps}) -> {r} {{ {e} }}"), vec!["FunctionOutputTypeMismatch"]),
        "argument" => (format!("fn w{n}{g}({ps}) -> int {{ fn k(a: {r}) -> int {{ 0 }}  k({e}) }}"), vec!["NoOverload"]),
        "callable_argument" => {
            let sep = if ps.is_empty() { "" } else { ", " };
            (format!("fn w{n}{g}(c: ({r})->(int){sep}{ps}) -> int {{ c({e}) }}"), vec!["InvalidArgumentType", "NoOverload", "CallableBindingFailed"])
        }
        "field" => {
            if !vars.is_empty() {
                return None;
            }
            (format!("struct K{n}(a: {r})\nfn w{n}({ps}) -> int {{ let q = K{n}({e}); 0 }}"), vec!["StructFieldTypeMismatch"])
        }
        "variant" => {
            if !vars.is_empty() {
                return None;
            }
            (format!("union V{n}(a: {r}, b: int)\nfn w{n}({ps}) -> int {{ let q = V{n}::a({e}); 0 }}"), vec!["VariantConstructorTypeArgMismatch"])
        }
        "default" => {
            if !vars.is_empty() || !w.params.is_empty() {
                return None;
            }
            (format!("fn w{n}(d: {r} ?= {e}) -> int {{ 0 }}"), vec![])
        }
        _ => return None,
    };
    let same_outer = outer(req) == outer(sup);
    Some(Snip {
        src,
        want: if ok { Want::Accept } else { Want::Reject(classes) },
        position,
        req: req.src(),
        sup: sup.src(),
        key: fnv(format!("{position}|{}|{}|{closed}", req.src(), sup.src()).as_bytes()),
        nontrivial: same_outer || has_unknown(sup) || matches!(req, Ty::Var(_)) || matches!(sup, Ty::Var(_)),
        note: String::new(),
    })
}

fn failure_of(s: &Snip, got: &Out, job: &Job, idx: usize) -> Option<Failure> {
    let got_s = match got {
        Out::Done => "accepted".to_string(),
        Out::CompileError { class, text } => format!("rejected [{class}] {}", text.lines().last().unwrap_or("").chars().take(160).collect::<String>()),
        Out::Type { text, .. } => format!("type {text}"),
        other => crate::expect::brief(other),
    };
    let (kind, want_s) = match (&s.want, got) {
        (_, Out::Panic { .. }) => ("panic", "no panic".to_string()),
        (Want::Accept, Out::Done) => return None,
        (Want::Accept, Out::CompileError { .. }) => ("rejected_assignable", "accepted".to_string()),
        (Want::Reject(cl), Out::CompileError { class, .. }) => {
            if cl.is_empty() || cl.contains(&class.as_str()) {
                return None;
            }
            ("wrong_error_class", format!("rejected with one of {cl:?}"))
        }
        (Want::Reject(cl), Out::Done) => ("accepted_unassignable", format!("rejected with one of {cl:?}")),
        (Want::Type(..), Out::Done) => return None,
        (Want::Type(..), Out::CompileError { .. }) => ("rejected_assignable", "accepted".to_string()),
        _ => ("unexpected", "a verdict".to_string()),
    };
    let mut single = job.clone();
    single.srcs = vec![job.srcs[0].clone(), s.src.clone()];
    single.steps = vec![Step::Compile { src: 0 }, Step::Compile { src: 1 }];
    let _ = idx;
    let want_json = match &s.want {
        Want::Accept | Want::Type(..) => json!("accept"),
        Want::Reject(cl) => json!({ "reject": cl }),
    };
    Some(
        Failure::new(kind, format!("position {}: required {} supplied {}: expected {want_s}, got {got_s}\n  {}{}", s.position, s.req, s.sup, s.src.replace('\n', "\n  "), s.note))
            .key("position", s.position)
            .key("req", outer_of_src(&s.req))
            .key("sup", outer_of_src(&s.sup))
            .direct(json!({"form": "c04", "job": single, "want": [[1, want_json]]})),
    )
}

fn outer_of_src(s: &str) -> String {
    if s.starts_with('(') {
        return if s.contains(")->(") && !s.ends_with(')') || s.contains(")->(") { "callable".into() } else { "tuple".into() };
    }
    s.split('<').next().unwrap_or(s).to_string()
}

fn type_failure(s: &Snip, var: &str, want: &Ty, got: &Out, prelude_and_src: (&str, &str)) -> Option<Failure> {
    let mut compounds = BTreeMap::new();
    let (got_ty, text) = match got {
        Out::Type { json, text } => (Ty::from_json(json, &mut compounds), text.clone()),
        other => (Ty::Unknown, crate::expect::brief(other)),
    };
    if matches!(got, Out::Type { .. }) && &got_ty == want {
        return None;
    }
    let mut job = Job::new("");
    job.srcs = vec![prelude_and_src.0.to_string(), prelude_and_src.1.to_string()];
    job.steps = vec![Step::Compile { src: 0 }, Step::Compile { src: 1 }, Step::StaticType { name: var.to_string() }];
    Some(
        Failure::new("wrong_inferred_type", format!("{}: the inferred static type of `{var}` is {text}, the least common type of its parts is {}\n  {}{}", s.position, want.src(), s.src.replace('\n', "\n  "), s.note))
            .key("position", s.position)
            .key("req", outer_of_src(&s.req))
            .direct(json!({"form": "c04", "job": job, "want": [[1, "accept"], [2, {"type": want}]]})),
    )
}

/// run a list of snippets (each its own compile step after the prelude) and judge them
fn run_snips(snips: &[Snip], ctx: &mut Ctx) -> Result<Vec<CaseOutcome>, HarnessError> {
    let mut job = Job::new("");
    job.srcs = vec![PRELUDE.to_string()];
    job.steps = vec![Step::Compile { src: 0 }];
    let mut idx = vec![];
    for s in snips {
        job.srcs.push(s.src.clone());
        idx.push((job.steps.len(), None::<usize>));
        job.steps.push(Step::Compile { src: job.srcs.len() - 1 });
    }
    for (i, s) in snips.iter().enumerate() {
        if let Want::Type(v, _) = &s.want {
            idx[i].1 = Some(job.steps.len());
            job.steps.push(Step::StaticType { name: v.clone() });
        }
    }
    job.cpu_s = 30;
    let r = ctx.exec(&job)?;
    judge(snips, &job, &idx, &r, ctx)
}

fn judge(snips: &[Snip], job: &Job, idx: &[(usize, Option<usize>)], r: &Reply, ctx: &mut Ctx) -> Result<Vec<CaseOutcome>, HarnessError> {
    let mut outs = vec![];
    let dead = end_failure(r);
    for (i, s) in snips.iter().enumerate() {
        let mut o = CaseOutcome {
            key: s.key,
            nontrivial: s.nontrivial,
            classes: vec![format!("position:{}", s.position), format!("expect:{}", match &s.want { Want::Accept => "accept", Want::Reject(_) => "reject", Want::Type(..) => "type" })],
            evals: 1,
            ..Default::default()
        };
        if dead.is_some() && r.died_in.map_or(true, |d| d <= idx[i].0) {
            // the process died at or before this snippet: judge it alone
            let mut single = Job::new("");
            single.srcs = vec![PRELUDE.to_string(), s.src.clone()];
            single.steps = vec![Step::Compile { src: 0 }, Step::Compile { src: 1 }];
            if let Want::Type(v, _) = &s.want {
                single.steps.push(Step::StaticType { name: v.clone() });
            }
            let r1 = ctx.exec(&single)?;
            o.evals += 1;
            if let Some(f) = end_failure(&r1) {
                o.failures.push(
                    f.key("position", s.position)
                        .direct(json!({"form": "c04", "job": single, "want": [[1, "any"]]})),
                );
            } else {
                if let Some(f) = failure_of(s, r1.step(1), &single, 1) {
                    o.failures.push(f);
                } else if let Want::Type(v, t) = &s.want {
                    if let Some(f) = type_failure(s, v, t, r1.step(2), (PRELUDE, &s.src)) {
                        o.failures.push(f);
                    }
                }
            }
            outs.push(o);
            continue;
        }
        let got = r.step(idx[i].0);
        if let Some(f) = failure_of(s, got, job, idx[i].0) {
            o.failures.push(f);
        } else if let (Want::Type(v, t), Some(ti)) = (&s.want, idx[i].1) {
            if let Some(f) = type_failure(s, v, t, r.step(ti), (PRELUDE, &s.src)) {
                o.failures.push(f);
            }
        }
        if outs.len() % 97 == 0 {
            o.sample = Some(json!({"position": s.position, "required": s.req, "supplied": s.sup, "source": s.src, "verdict": match got { Out::Done => "accepted".to_string(), Out::CompileError { class, .. } => format!("rejected [{class}]"), o => crate::expect::brief(o) }}));
        }
        outs.push(o);
    }
    Ok(outs)
}

// ------------------------------------------------------------------------------------------
// random types, edits
// ------------------------------------------------------------------------------------------

fn rand_leaf(t: &mut Tape, vars: bool) -> Ty {
    match t.below(if vars { 8 } else { 6 }) {
        0 | 1 => Ty::Int,
        2 => Ty::Str,
        3 => st("S0", vec![]),
        4 => Ty::Float,
        5 => un("U0", vec![]),
        6 => var("T"),
        _ => var("U"),
    }
}

fn rand_ty(t: &mut Tape, depth: u32, vars: bool) -> Ty {
    if depth == 0 || t.below(4) == 0 {
        return rand_leaf(t, vars);
    }
    let d = depth - 1;
    match t.below(13) {
        0 | 1 => nat("Sequence", vec![rand_ty(t, d, vars)]),
        2 => nat("Optional", vec![rand_ty(t, d, vars)]),
        3 => nat("Generator", vec![rand_ty(t, d, vars)]),
        4 => nat("Stack", vec![rand_ty(t, d, vars)]),
        5 => nat("Mapping", vec![if t.bool() { Ty::Int } else { Ty::Str }, rand_ty(t, d, vars)]),
        6 | 7 => {
            let n = t.below(4);
            Ty::Tuple((0..n).map(|_| rand_ty(t, d, vars)).collect())
        }
        8 => st("S1", vec![rand_ty(t, d, vars)]),
        9 => st("S2", vec![rand_ty(t, d, vars), rand_ty(t, d, vars)]),
        10 => un("U1", vec![rand_ty(t, d, vars)]),
        11 => un("U2", vec![rand_ty(t, d, vars), rand_ty(t, d, vars)]),
        _ => {
            let n = t.below(3);
            Ty::Callable((0..n).map(|_| rand_ty(t, d.min(1), vars)).collect(), Box::new(rand_ty(t, d, vars)))
        }
    }
}

fn count_nodes(t: &Ty) -> usize {
    match t {
        Ty::Native(_, a) | Ty::Compound(_, _, a) | Ty::Tuple(a) => 1 + a.iter().map(count_nodes).sum::<usize>(),
        Ty::Callable(p, r) => 1 + p.iter().map(count_nodes).sum::<usize>() + count_nodes(r),
        _ => 1,
    }
}

/// apply `f` to the `k`-th node (pre-order)
fn edit_at(t: &Ty, k: &mut usize, f: &mut dyn FnMut(&Ty) -> Ty) -> Ty {
    if *k == 0 {
        *k = usize::MAX;
        return f(t);
    }
    if *k != usize::MAX {
        *k -= 1;
    }
    let mut go = |xs: &[Ty], k: &mut usize| -> Vec<Ty> { xs.iter().map(|x| if *k == usize::MAX { x.clone() } else { edit_at(x, k, f) }).collect() };
    match t {
        Ty::Native(n, a) => Ty::Native(n.clone(), go(a, k)),
        Ty::Compound(kd, n, a) => Ty::Compound(kd.clone(), n.clone(), go(a, k)),
        Ty::Tuple(a) => Ty::Tuple(go(a, k)),
        Ty::Callable(p, r) => {
            let p2 = go(p, k);
            let r2 = if *k == usize::MAX { (**r).clone() } else { edit_at(r, k, f) };
            Ty::Callable(p2, Box::new(r2))
        }
        other => other.clone(),
    }
}

fn edit(ty: &Ty, t: &mut Tape, vars: bool, allow_unknown: bool) -> Ty {
    let n = count_nodes(ty);
    let mut k = t.below(n);
    let choice = t.below(6);
    let leaf = rand_leaf(t, vars);
    let extra = rand_leaf(t, vars);
    let mut f = |x: &Ty| -> Ty {
        match (choice, x) {
            (0, _) if allow_unknown => Ty::Unknown,
            (1, _) => leaf.clone(),
            (2, Ty::Native(n, a)) if a.len() == 1 => {
                let sib = match n.as_str() {
                    "Sequence" => "Generator",
                    "Generator" => "Stack",
                    "Stack" => "Optional",
                    _ => "Sequence",
                };
                nat(sib, a.clone())
            }
            (2, Ty::Compound(k, n, a)) => {
                let (k2, n2) = match n.as_str() {
                    "S1" => ("union", "U1"),
                    "U1" => ("struct", "S1"),
                    "S2" => ("union", "U2"),
                    "U2" => ("struct", "S2"),
                    "S0" => ("union", "U0"),
                    "U0" => ("struct", "S0"),
                    _ => (k.as_str(), n.as_str()),
                };
                Ty::Compound(k2.into(), n2.into(), a.clone())
            }
            (3, Ty::Tuple(a)) => {
                let mut a = a.clone();
                if a.len() > 1 && extra == Ty::Int {
                    a.pop();
                } else {
                    a.push(extra.clone());
                }
                Ty::Tuple(a)
            }
            (3, Ty::Callable(p, r)) => {
                let mut p = p.clone();
                if !p.is_empty() && extra == Ty::Int {
                    p.pop();
                } else {
                    p.push(extra.clone());
                }
                Ty::Callable(p, r.clone())
            }
            (4, Ty::Tuple(a)) if a.len() == 2 => Ty::Tuple(vec![a[1].clone(), a[0].clone()]),
            (4, Ty::Compound(k, n, a)) if a.len() == 2 => Ty::Compound(k.clone(), n.clone(), vec![a[1].clone(), a[0].clone()]),
            (4, Ty::Native(n, a)) if n == "Mapping" => nat("Mapping", vec![if a[0] == Ty::Int { Ty::Str } else { Ty::Int }, a[1].clone()]),
            (5, x) => nat("Sequence", vec![x.clone()]),
            _ => {
                if allow_unknown {
                    Ty::Unknown
                } else {
                    leaf.clone()
                }
            }
        }
    };
    edit_at(ty, &mut k, &mut f)
}

// ------------------------------------------------------------------------------------------
// inference cases (top level, closed expressions)
// ------------------------------------------------------------------------------------------

/// generic user signatures: (generic names, parameter types, return type)
fn sig_pool() -> Vec<(Vec<&'static str>, Vec<Ty>, Ty)> {
    let a = || var("A");
    let b = || var("B");
    vec![
        (vec!["A"], vec![a(), a()], a()),
        (vec!["A"], vec![nat("Sequence", vec![a()]), a()], a()),
        (vec!["A"], vec![a(), nat("Sequence", vec![a()])], nat("Optional", vec![a()])),
        (vec!["A", "B"], vec![a(), b()], Ty::Tuple(vec![b(), a()])),
        (vec!["A", "B"], vec![st("S2", vec![a(), b()]), a()], b()),
        (vec!["A", "B"], vec![nat("Mapping", vec![a(), b()]), b()], nat("Sequence", vec![b()])),
        (vec!["A"], vec![nat("Optional", vec![a()]), nat("Stack", vec![a()]), a()], nat("Stack", vec![a()])),
        (vec!["A", "B"], vec![a(), Ty::Callable(vec![a()], Box::new(b()))], nat("Sequence", vec![b()])),
        (vec!["A"], vec![Ty::Tuple(vec![a(), a()])], a()),
        (vec!["A", "B"], vec![un("U2", vec![a(), b()]), un("U2", vec![a(), b()])], Ty::Tuple(vec![a(), b()])),
        (vec!["A"], vec![nat("Sequence", vec![nat("Sequence", vec![a()])]), nat("Sequence", vec![a()])], a()),
        (vec!["A", "B"], vec![a(), b(), a()], st("S2", vec![b(), a()])),
    ]
}

/// a closed type (no generic variables) that the witness builder can construct
fn rand_closed_ty(t: &mut Tape, depth: u32) -> Ty {
    if depth == 0 || t.below(3) == 0 {
        return match t.below(5) {
            0 | 1 => Ty::Int,
            2 => Ty::Str,
            3 => st("S0", vec![]),
            _ => Ty::Float,
        };
    }
    let d = depth - 1;
    match t.below(10) {
        0 | 1 => nat("Sequence", vec![rand_closed_ty(t, d)]),
        2 => nat("Optional", vec![rand_closed_ty(t, d)]),
        3 => nat("Stack", vec![rand_closed_ty(t, d)]),
        4 => nat("Mapping", vec![if t.bool() { Ty::Int } else { Ty::Str }, rand_closed_ty(t, d)]),
        5 | 6 => {
            let n = 1 + t.below(3);
            Ty::Tuple((0..n).map(|_| rand_closed_ty(t, d)).collect())
        }
        7 => st("S1", vec![rand_closed_ty(t, d)]),
        8 => st("S2", vec![rand_closed_ty(t, d), rand_closed_ty(t, d)]),
        _ => un("U1", vec![rand_closed_ty(t, d)]),
    }
}

/// replace random subtrees by unknown (a "hole"): the result is below `ty` in the type order
fn punch(ty: &Ty, t: &mut Tape) -> Ty {
    let mut out = ty.clone();
    for _ in 0..t.below(3) {
        let n = count_nodes(&out);
        // the root only rarely: a part that is unknown altogether teaches little
        let mut k = if n > 1 && t.below(8) != 0 { 1 + t.below(n - 1) } else { t.below(n) };
        out = edit_at(&out, &mut k, &mut |_| Ty::Unknown);
    }
    out
}

fn constructible(ty: &Ty) -> bool {
    Wit::default().expr(ty, true).is_some()
}

pub fn gen_infer(t: &mut Tape, n: usize) -> Option<Snip> {
    let kind = t.below(5);
    let bd = 1 + t.below(3) as u32;
    let base = if t.bool() {
        // a multi-parameter constructor at the top: component order matters there
        let (x, y) = (rand_closed_ty(t, bd - 1), rand_closed_ty(t, bd - 1));
        match t.below(4) {
            0 => st("S2", vec![x, y]),
            1 => Ty::Tuple(vec![x, y]),
            2 => nat("Mapping", vec![if t.bool() { Ty::Int } else { Ty::Str }, y]),
            _ => nat("Sequence", vec![st("S2", vec![x, y])]),
        }
    } else {
        rand_closed_ty(t, bd)
    };
    let mut w = Wit::default();
    let mk_parts = |t: &mut Tape, base: &Ty, k: usize| -> Vec<Ty> {
        (0..k)
            .map(|_| {
                if t.below(6) == 0 {
                    edit(base, t, false, true)
                } else {
                    punch(base, t)
                }
            })
            .collect()
    };
    match kind {
        0 | 1 => {
            // array literal / if / tuple-of-parts
            let k = 2 + t.below(3);
            let parts = mk_parts(t, &base, k);
            if parts.iter().any(|p| !constructible(p)) {
                return None;
            }
            let es: Vec<String> = parts.iter().map(|p| w.expr(p, true).unwrap()).collect();
            let want = lct_all(&parts);
            let name = format!("r{n}");
            if std::env::var("XV_DEBUG_C04").is_ok() {
                eprintln!("INFER {} :: {}", base.src(), parts.iter().map(|p| p.src()).collect::<Vec<_>>().join(" | "));
            }
            let (src, ty) = if kind == 0 {
                (format!("let {name} = [{}];", es.join(", ")), want.map(|x| nat("Sequence", vec![x])))
            } else {
                let two = lct(&parts[0], &parts[1]);
                (format!("let {name} = if(true, {}, {});", es[0], es[1]), two)
            };
            Some(Snip {
                src,
                want: match ty {
                    Some(ty) => Want::Type(name, ty),
                    None => Want::Reject(vec!["IncompatibleTypes", "NoOverload"]),
                },
                position: if kind == 0 { "array_literal" } else { "generic_if" },
                req: base.src(),
                sup: parts.iter().map(|p| p.src()).collect::<Vec<_>>().join(" | "),
                key: fnv(format!("inf{kind}|{}", parts.iter().map(|p| p.src()).collect::<Vec<_>>().join("|")).as_bytes()),
                nontrivial: parts.iter().any(has_unknown) && parts.windows(2).any(|w| w[0] != w[1]),
                note: String::new(),
            })
        }
        2 => {
            // generic compound construction
            let x = punch(&base, t);
            let y = punch(&rand_closed_ty(t, 2), t);
            if !constructible(&x) || !constructible(&y) {
                return None;
            }
            let name = format!("r{n}");
            let (src, ty) = match t.below(4) {
                0 => (format!("let {name} = S2({}, {});", w.expr(&x, true)?, w.expr(&y, true)?), st("S2", vec![x.clone(), y.clone()])),
                1 => (format!("let {name} = S1({});", w.expr(&x, true)?), st("S1", vec![x.clone()])),
                2 => (format!("let {name} = U2::b({});", w.expr(&y, true)?), un("U2", vec![Ty::Unknown, y.clone()])),
                _ => (format!("let {name} = ({}, U1::a({}));", w.expr(&y, true)?, w.expr(&x, true)?), Ty::Tuple(vec![y.clone(), un("U1", vec![x.clone()])])),
            };
            Some(Snip {
                src,
                want: Want::Type(name, ty),
                position: "generic_compound",
                req: x.src(),
                sup: y.src(),
                key: fnv(format!("cmp|{}|{}", x.src(), y.src()).as_bytes()),
                nontrivial: has_unknown(&x) || has_unknown(&y),
                note: String::new(),
            })
        }
        _ => {
            // call of a generic user function
            let pool = sig_pool();
            let (gens, params, ret) = &pool[t.below(pool.len())];
            let gens: Vec<String> = gens.iter().map(|s| s.to_string()).collect();
            // choose bindings, instantiate the parameters, then punch holes / edit
            let mut b = HashMap::new();
            for g in &gens {
                let d = t.below(3) as u32;
                b.insert(g.clone(), rand_closed_ty(t, d));
            }
            let mut args = vec![];
            for p in params {
                let inst = p.subst(&b);
                let a = if t.below(8) == 0 { edit(&inst, t, false, true) } else { punch(&inst, t) };
                args.push(a);
            }
            if args.iter().any(|a| !constructible(a)) {
                return None;
            }
            let mut bind = HashMap::new();
            let ok = params.iter().zip(&args).all(|(p, a)| assign(p, a, &gens, &mut bind));
            let name = format!("r{n}");
            let ps: Vec<String> = params.iter().enumerate().map(|(i, p)| format!("a{i}: {}", p.src())).collect();
            let es: Vec<String> = args.iter().map(|a| w.expr(a, true).unwrap()).collect();
            let src = format!("fn g{n}<{}>({}) -> {} {{ error(\"g\") }}\nlet {name} = g{n}({});", gens.join(", "), ps.join(", "), ret.src(), es.join(", "));
            Some(Snip {
                src,
                want: if ok { Want::Type(name, close(ret, &gens, &bind)) } else { Want::Reject(vec!["NoOverload"]) },
                position: "generic_call",
                req: params.iter().map(|p| p.src()).collect::<Vec<_>>().join(", "),
                sup: args.iter().map(|p| p.src()).collect::<Vec<_>>().join(", "),
                key: fnv(format!("call|{}|{}", ret.src(), args.iter().map(|p| p.src()).collect::<Vec<_>>().join("|")).as_bytes()),
                nontrivial: args.iter().any(has_unknown) || !ok,
                note: String::new(),
            })
        }
    }
}

pub fn gen_near(t: &mut Tape, n: usize) -> Option<Snip> {
    let vars = t.below(3) == 0;
    let rd = 1 + t.below(3) as u32;
    let req = rand_ty(t, rd, vars);
    let mut sup = req.clone();
    for _ in 0..t.below(3) {
        sup = edit(&sup, t, vars, true);
    }
    let position = *t.pick(POSITIONS);
    let closed = t.below(3) == 0;
    place(&req, &sup, position, closed, n)
}

impl Property for C04 {
    fn id(&self) -> &'static str {
        "C04"
    }
    fn rule(&self) -> String {
        "Type universe: int, str, float, S0, U0, generic variables T / U of the enclosing function, unknown (supplied side only, through witness expressions such as [], none(), stack(), mapping<int>(), error(..), S1(error(..)), U1::b(..), lambdas returning them), Sequence / Optional / Generator / Set / Stack / Mapping, tuples of 0-3 components, callables of 0-2 parameters, user structs and unions with 0-2 generic parameters. enumerated: ALL (required, supplied) pairs of types with at most one constructor over the leaves {int, str, S0, T} (+ unknown on the supplied side) in an annotated let; the same pairs in the other six positions (function return, argument of a nested function, argument of a call through a callable-typed parameter, struct field, union variant payload, default parameter value) whenever both sides have the same outer constructor or one side is a leaf, and a deterministic eighth of the rest. near: random required types of depth 1-3 with the supplied type 0-2 edits away (subtree -> unknown, leaf replaced, constructor swapped for a sibling, arity +-1, components swapped, wrapped in Sequence), random position, supplied through wrapper parameters or as a closed value expression. infer: top-level bindings of array literals, if(..), generic struct / union construction and calls of 12 generic user signatures with arguments that are instances of one type with holes punched (unknown) or edited; the static type recorded by the compiler must equal the least common type / the return type under the least consistent binding, with unbound generic parameters being unknown. Oracle: R-type (engine/src/rtype.rs). Non-trivial = same outer constructor on both sides, or unknown / a generic variable involved, or (infer) parts that differ.".into()
    }
    fn assumptions(&self) -> Vec<String> {
        vec![
            "callable types are compared by exact arity and component-wise with the same relation in parameter and return positions; unknown is generated only in the return position of a supplied callable".into(),
            "least common type of two different callable types is not generated (the book does not say whether it exists)".into(),
        ]
    }
    fn exhaustive_part(&self) -> Option<String> {
        Some("all (required, supplied) pairs of types with at most one constructor over {int, str, S0, T} (+unknown supplied) in the annotated-let position".into())
    }
    fn families(&self, tier: Tier) -> Vec<Family> {
        let k = if tier == Tier::Quick { 1 } else { 30 };
        vec![
            Family { name: "near", batches: 1200 * k, batch_size: 60, tape_len: 64 },
            Family { name: "infer", batches: 1200 * k, batch_size: 40, tape_len: 96 },
        ]
    }
    fn enumerate(&self, ctx: &mut Ctx, _tier: Tier) -> Result<Vec<CaseOutcome>, HarnessError> {
        let leaves = base_leaves();
        let mut reqs = leaves.clone();
        reqs.extend(depth1(&leaves));
        let mut sleaves = leaves.clone();
        sleaves.push(Ty::Unknown);
        let mut sups = sleaves.clone();
        sups.extend(depth1(&sleaves));
        let mut snips = vec![];
        let mut n = 0usize;
        for req in &reqs {
            for sup in &sups {
                let same = outer(req) == outer(sup) || depth(req) == 0 || depth(sup) == 0;
                let h = fnv(format!("{}|{}", req.src(), sup.src()).as_bytes());
                for (pi, pos) in POSITIONS.iter().enumerate() {
                    if pi > 0 && !same && h % 8 != pi as u64 {
                        continue;
                    }
                    for closed in [false, true] {
                        if closed && (spellable(sup) && h % 4 != 0) {
                            // closed-value variant of a spellable type: a quarter of them
                            continue;
                        }
                        if closed && !spellable(sup) {
                            continue; // identical to the non-closed variant
                        }
                        if let Some(s) = place(req, sup, pos, closed, n) {
                            n += 1;
                            snips.push(s);
                        }
                    }
                }
            }
        }
        let chunks: Vec<&[Snip]> = snips.chunks(1500).collect();
        let mut jobs = vec![];
        let mut idxs = vec![];
        for ch in &chunks {
            let mut job = Job::new("");
            job.srcs = vec![PRELUDE.to_string()];
            job.steps = vec![Step::Compile { src: 0 }];
            let mut idx = vec![];
            for s in ch.iter() {
                job.srcs.push(s.src.clone());
                idx.push((job.steps.len(), None));
                job.steps.push(Step::Compile { src: job.srcs.len() - 1 });
            }
            job.cpu_s = 60;
            jobs.push(job);
            idxs.push(idx);
        }
        let replies = par_exec(&jobs, 12)?;
        let mut outs = vec![];
        for (((ch, job), idx), r) in chunks.iter().zip(&jobs).zip(&idxs).zip(&replies) {
            outs.extend(judge(ch, job, idx, r, ctx)?);
        }
        Ok(outs)
    }
    fn run_batch(&self, family: &str, subs: &[Vec<u8>], ctx: &mut Ctx) -> Result<Vec<CaseOutcome>, HarnessError> {
        let mut snips = vec![];
        for (i, s) in subs.iter().enumerate() {
            let mut t = Tape::new(s);
            let sn = if family == "infer" { gen_infer(&mut t, i) } else { gen_near(&mut t, i) };
            if let Some(sn) = sn {
                snips.push(sn);
            }
        }
        if snips.is_empty() {
            return Ok(vec![]);
        }
        run_snips(&snips, ctx)
    }
    fn check_direct(&self, direct: &Value, ctx: &mut Ctx) -> Result<Option<Failure>, HarnessError> {
        if direct["form"].as_str() != Some("c04") {
            return crate::direct::check_generic(direct, ctx);
        }
        let job: Job = serde_json::from_value(direct["job"].clone()).map_err(|e| HarnessError(e.to_string()))?;
        let r = ctx.exec(&job)?;
        if let Some(f) = end_failure(&r) {
            return Ok(Some(f.direct(direct.clone())));
        }
        for w in direct["want"].as_array().cloned().unwrap_or_default() {
            let i = w[0].as_u64().unwrap_or(0) as usize;
            let got = r.step(i);
            let bad = match (&w[1], got) {
                (_, Out::Panic { .. }) => true,
                (Value::String(s), Out::Done) if s == "accept" || s == "any" => false,
                (Value::String(s), Out::CompileError { .. }) if s == "any" => false,
                (Value::String(s), _) if s == "accept" => true,
                (Value::Object(m), got) if m.contains_key("reject") => match got {
                    Out::CompileError { class, .. } => {
                        let cl: Vec<String> = serde_json::from_value(m["reject"].clone()).unwrap_or_default();
                        !(cl.is_empty() || cl.contains(class))
                    }
                    _ => true,
                },
                (Value::Object(m), got) if m.contains_key("type") => match got {
                    Out::Type { json, .. } => {
                        let want: Ty = serde_json::from_value(m["type"].clone()).map_err(|e| HarnessError(e.to_string()))?;
                        Ty::from_json(json, &mut BTreeMap::new()) != want
                    }
                    _ => true,
                },
                _ => false,
            };
            if bad {
                return Ok(Some(Failure::new("static_check", format!("step {i}: wanted {}, got {}", w[1], crate::expect::brief(got))).direct(direct.clone())));
            }
        }
        Ok(None)
    }
}
