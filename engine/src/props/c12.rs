//! C12 — compilation is total, effect-free and deterministic.
use crate::direct::end_failure;
use crate::expect::brief;
use crate::pool::HarnessError;
use crate::proto::*;
use crate::runner::*;
use crate::tape::{fnv, Tape};
use serde_json::{json, Value};
use std::sync::OnceLock;

pub struct C12;

static CORPUS: OnceLock<Vec<String>> = OnceLock::new();

/// shipped scripts and the code blocks of the book, read from /repo's working tree
fn corpus() -> &'static Vec<String> {
    CORPUS.get_or_init(|| {
        let mut out = vec![];
        let mut files: Vec<_> = std::fs::read_dir("/repo/test_scripts")
            .map(|d| d.filter_map(|e| e.ok()).map(|e| e.path()).collect())
            .unwrap_or_default();
        files.sort();
        for f in files {
            if f.extension().map_or(false, |e| e == "xr") {
                if let Ok(s) = std::fs::read_to_string(&f) {
                    if s.len() < 6000 {
                        out.push(s);
                    }
                }
            }
        }
        fn walk(dir: &std::path::Path, out: &mut Vec<String>) {
            let mut entries: Vec<_> = std::fs::read_dir(dir)
                .map(|d| d.filter_map(|e| e.ok()).map(|e| e.path()).collect())
                .unwrap_or_default();
            entries.sort();
            for p in entries {
                if p.is_dir() {
                    walk(&p, out);
                } else if p.extension().map_or(false, |e| e == "md") {
                    if let Ok(s) = std::fs::read_to_string(&p) {
                        let mut rest = s.as_str();
                        while let Some(i) = rest.find("```xray") {
                            let after = &rest[i + 7..];
                            let Some(j) = after.find("```") else { break };
                            let block = after[..j].trim().to_string();
                            if !block.is_empty() && block.len() < 3000 {
                                out.push(block);
                            }
                            rest = &after[j + 3..];
                        }
                    }
                }
            }
        }
        walk(std::path::Path::new("/repo/book/src"), &mut out);
        if out.is_empty() {
            out.push("fn main() -> bool { true }".into());
        }
        out
    })
}

fn tokenize(s: &str) -> Vec<String> {
    let cs: Vec<char> = s.chars().collect();
    let mut out = vec![];
    let mut i = 0;
    while i < cs.len() {
        let c = cs[i];
        if c.is_whitespace() {
            let mut j = i;
            while j < cs.len() && cs[j].is_whitespace() {
                j += 1;
            }
            out.push(cs[i..j].iter().collect());
            i = j;
        } else if c.is_alphanumeric() || c == '_' {
            let mut j = i;
            while j < cs.len() && (cs[j].is_alphanumeric() || cs[j] == '_' || cs[j] == '.') {
                j += 1;
            }
            out.push(cs[i..j].iter().collect());
            i = j;
        } else if c == '"' || c == '\'' {
            let mut j = i + 1;
            while j < cs.len() && cs[j] != c {
                if cs[j] == '\\' {
                    j += 1;
                }
                j += 1;
            }
            j = (j + 1).min(cs.len());
            out.push(cs[i..j].iter().collect());
            i = j;
        } else {
            // two-character operators stay together
            let two: String = cs[i..(i + 2).min(cs.len())].iter().collect();
            if ["->", "::", "?:", "!:", "==", "!=", "<=", ">=", "&&", "||", "**", "?=", "//", "/*", "*/"].contains(&two.as_str()) {
                out.push(two);
                i += 2;
            } else {
                out.push(c.to_string());
                i += 1;
            }
        }
    }
    out
}

const ALPHABET: &[&str] = &[
    "let ", "fn ", "forward fn ", "struct ", "union ", "type ", "x", "y", "f", "g", "T", "int", "str", "bool", "float",
    "Sequence", "Optional", "item0", "item1", "item1x", "Item1", "item", "item00", "_", "__", "true", "false", "0", "1",
    "42", "1_000", "1__0", "0x1f", "0x", "0x_", "0xg", "0b101", "0b", "0b_", "0b2", "1.5", "1.", ".5", "1e5", "1e-5",
    "1e", "1E5", "1e400", "00", "007", "9223372036854775808", "170141183460469231731687303715884105728",
    "99999999999999999999999999999999999999999999", "\"s\"", "'s'", "\"a\\nb\"", "\"\\q\"", "\"\\u{41}\"",
    "\"\\u{110000}\"", "\"\\u{}\"", "\"\\", "\"open", "#\"fenced\"#", "##\"x\"#", "r\"raw\\\"", "f\"a{x}b\"", "f\"{\"",
    "f\"{x:}\"", "f\"{{}}\"", "f\"{x:>5}\"", "(", ")", "[", "]", "{", "}", "<", ">", ",", ";", ":", ".", "::", "?:",
    "!:", "->", "=", "?=", "$", "#", "+", "-", "*", "/", "%", "**", "&&", "||", "==", "!=", "<=", ">=", "&", "|", "^",
    "!", "//c\n", "/*c*/", "/*", " ", "\n", "\t", "é", "😀", "\u{0}", "\u{feff}",
];

fn gen_soup(t: &mut Tape) -> String {
    let n = 1 + t.below(40);
    let mut s = String::new();
    let mut open: Vec<&str> = vec![];
    let balanced = t.bool();
    for _ in 0..n {
        let tok = *t.pick(ALPHABET);
        if balanced {
            match tok {
                "(" | "[" | "{" => {
                    if open.len() < 64 {
                        open.push(tok);
                        s.push_str(tok);
                    }
                    continue;
                }
                ")" | "]" | "}" => {
                    if let Some(o) = open.pop() {
                        s.push_str(match o {
                            "(" => ")",
                            "[" => "]",
                            _ => "}",
                        });
                    }
                    continue;
                }
                _ => {}
            }
        }
        s.push_str(tok);
        if t.bool() {
            s.push(' ');
        }
    }
    while let Some(o) = open.pop() {
        s.push_str(match o {
            "(" => ")",
            "[" => "]",
            _ => "}",
        });
    }
    s
}

/// a plausible skeleton with soups in expression positions: gets past the first tokens
fn gen_structured(t: &mut Tape) -> String {
    let expr = |t: &mut Tape| -> String {
        let n = 1 + t.below(8);
        (0..n).map(|_| *t.pick(ALPHABET)).collect::<Vec<_>>().join(if t.bool() { " " } else { "" })
    };
    match t.below(6) {
        0 => format!("let x = {};", expr(t)),
        1 => format!("fn f(a: int, b: {}) -> int {{ {} }}", expr(t), expr(t)),
        2 => format!("struct S(a: {}, b: int)\nlet s = S({}, 1);", expr(t), expr(t)),
        3 => format!("let x: {} = {};", expr(t), expr(t)),
        4 => format!("fn f<T>(a: T ?= {}) -> T {{ let y = {}; a }}", expr(t), expr(t)),
        _ => format!("let a = [{}];\nlet b = ({}, {});", expr(t), expr(t), expr(t)),
    }
}

fn gen_literal_text(t: &mut Tape) -> String {
    let digits = |t: &mut Tape, lo: usize, span: usize, set: &[char]| -> String {
        let n = lo + t.below(span.max(1));
        (0..n).map(|_| *t.pick(set)).collect()
    };
    let dec = ['0', '1', '2', '9', '_', '5'];
    let hex = ['0', 'f', 'F', '9', '_', 'a', 'g'];
    let bin = ['0', '1', '_', '2'];
    let deep = t.below(100) == 0;
    let lit = match if deep { 12 } else { t.below(12) } {
        12 => {
            // deep nesting with a syntax error inside: a failing parse must not re-read the nested
            // text once per grammar alternative (time exponential in the depth)
            let d = 8 + t.below(70);
            let (open, close) = *t.pick(&[("(", ")"), ("[", "]"), ("f(", ")"), ("(1, ", ")"), ("[(", ")]"), ("f\"a{", "}\""), ("g(f\"{", "}\")"), ("f'{[", "]}'")]);
            if t.below(3) == 0 {
                // the same in a type position
                let (topen, tclose) = *t.pick(&[("(", ")"), ("Sequence<", ">"), ("(int, ", ")"), ("((", ")->(int))")]);
                let closed = t.below(d + 1);
                return format!("fn f(x: {}{}{}) -> int {{ 1 }}", topen.repeat(d), t.pick(&["int", "", "int int", "//"]), tclose.repeat(closed));
            }
            let inner = *t.pick(&["1 1", "x y", "", "1 +", "a b()", ")", "1"]);
            let closed = t.below(d + 1);
            return format!("fn main() -> int {{ {}{}{} }}", open.repeat(d), inner, close.repeat(closed));
        }
        10 | 11 => {
            // a long statement full of multi-byte characters that fails AFTER parsing: the error
            // message quotes the source (every byte alignment of the quoted span is reached)
            let n = t.below(220);
            let body: String = (0..n).map(|_| *t.pick(&["a", "é", "κ", "∑", "😀", " ", "ß", "日", "x"])).collect();
            let pad = " ".repeat(t.below(5));
            return match t.below(4) {
                0 => format!("let{pad} message = \"{body}\" + 1;"),
                1 => format!("fn f() -> int {{{pad} \"{body}\" }}"),
                2 => format!("let x = undefined_name_1; // {body}\nlet y ={pad} \"{body}\".no_such_method();"),
                _ => format!("let x = [\"{body}\",{pad} 1];"),
            };
        }
        0 => digits(t, 1, 60, &dec),
        1 => format!("0x{}", digits(t, 0, 40, &hex)),
        2 => format!("0b{}", digits(t, 0, 140, &bin)),
        3 => format!("{}.{}", digits(t, 1, 20, &dec), digits(t, 0, 20, &dec)),
        4 => format!(
            "{}{}{}{}",
            digits(t, 1, 5, &dec),
            t.pick(&["e", "E"]),
            t.pick(&["", "-", "+"]),
            digits(t, 0, 5, &dec)
        ),
        5 => format!("item{}", digits(t, 0, 30, &['0', '1', '9', 'x', '_'])),
        6 => {
            // string forms with escapes and fences
            let inner: String = (0..t.below(8))
                .map(|_| *t.pick(&["a", "\\n", "\\\"", "\\'", "\\\\", "\\q", "\\u{41}", "\\u{d800}", "\\u{1234567}", "\\u{", "{", "}", "{{", "#", "\"", "'", "\n"]))
                .collect();
            let f = "#".repeat(t.below(3));
            let q = *t.pick(&["\"", "'"]);
            let pre = *t.pick(&["", "r", "f"]);
            format!("{pre}{f}{q}{inner}{q}{f}")
        }
        7 => format!("{}{}", t.pick(&["-", "+", "!", "--", "-+-"]), digits(t, 1, 45, &dec)),
        8 => format!("{}::item{}", "(1, 2)", digits(t, 1, 25, &['0', '1', '9'])),
        _ => format!("f\"{{{}:{}}}\"", digits(t, 1, 5, &dec), (0..t.below(6)).map(|_| *t.pick(&[">", "<", "^", "0", "9", "#", "+", ",", ".", "x", "e", "}", "{"])).collect::<String>()),
    };
    match t.below(4) {
        0 => format!("let x = {lit};"),
        1 => format!("let {lit} = 1;"),
        2 => format!("fn f() -> int {{ {lit} }}"),
        _ => format!("let x = [{lit}, {lit}];"),
    }
}

/// a text whose error message (under the standard library) renders a compound type with several
/// fields / a generic binding: the rendering must not depend on hash-map iteration order
fn gen_compound_error_text(t: &mut Tape) -> String {
    let n = 3 + t.below(4);
    let fields: Vec<String> = (0..n).map(|i| format!("f{i}: int")).collect();
    let args: Vec<String> = (0..n).map(|i| i.to_string()).collect();
    match t.below(3) {
        0 => format!("struct Pq({})\nlet x = 1 == Pq({});", fields.join(", "), args.join(", ")),
        1 => "struct Pq<A, B, C>(a: A, b: B, c: C)\nlet x = \"s\" + Pq(1, \"a\", [1.5]);".to_string(),
        _ => format!("union Uq({})\nlet x = Uq::f0(1) < 3;", fields.join(", ")),
    }
}

fn gen_mutation(t: &mut Tape) -> String {
    if t.below(40) == 0 {
        return gen_compound_error_text(t);
    }
    let c = corpus();
    let base = &c[t.below(c.len())];
    let mut toks = tokenize(base);
    if toks.is_empty() {
        return base.clone();
    }
    let nmut = 1 + t.below(4);
    for _ in 0..nmut {
        if toks.is_empty() {
            break;
        }
        let i = t.below(toks.len());
        match t.below(9) {
            0 => {
                toks.remove(i);
            }
            1 => {
                let x = toks[i].clone();
                toks.insert(i, x);
            }
            2 => {
                if i + 1 < toks.len() {
                    toks.swap(i, i + 1);
                }
            }
            3 => toks[i] = t.pick(ALPHABET).to_string(),
            4 => {
                // replace by another token of the same file (identifier for identifier...)
                let j = t.below(toks.len());
                toks[i] = toks[j].clone();
            }
            5 => toks.truncate(i),
            6 => {
                // splice a piece of another script
                let other = tokenize(&c[t.below(c.len())]);
                if !other.is_empty() {
                    let a = t.below(other.len());
                    let b = (a + 1 + t.below(12)).min(other.len());
                    for (k, tok) in other[a..b].iter().enumerate() {
                        toks.insert((i + k).min(toks.len()), tok.clone());
                    }
                }
            }
            7 => toks.insert(i, t.pick(ALPHABET).to_string()),
            _ => {
                // change a type name
                toks[i] = t.pick(&["int", "str", "float", "bool", "Sequence<int>", "(int)->(int)", "T"]).to_string();
            }
        }
    }
    toks.concat()
}

fn outcome_key(o: &Out) -> String {
    match o {
        Out::Done => "accepted".into(),
        Out::CompileError { class, text } => format!("rejected[{class}] {text}"),
        other => brief(other),
    }
}

/// position of a syntax error as a fraction of the text (from pest's " --> L:C")
fn syntax_error_fraction(text: &str, err: &str) -> f64 {
    let Some(i) = err.find("--> ") else { return 1.0 };
    let rest = &err[i + 4..];
    let mut it = rest.split(|c: char| !c.is_ascii_digit());
    let (Some(l), Some(c)) = (it.next().and_then(|x| x.parse::<usize>().ok()), it.next().and_then(|x| x.parse::<usize>().ok())) else {
        return 1.0;
    };
    let mut off = 0;
    for (k, line) in text.split('\n').enumerate() {
        if k + 1 == l {
            off += c;
            break;
        }
        off += line.chars().count() + 1;
    }
    off as f64 / text.chars().count().max(1) as f64
}

fn run_texts(texts: Vec<(String, &'static str)>, std_scope: bool, ctx: &mut Ctx) -> Result<Vec<CaseOutcome>, HarnessError> {
    let k = texts.len();
    let step = |i: usize| if std_scope { Step::CompileFresh { src: i } } else { Step::CompileBare { src: i } };
    // process 1: every text once, then every text again (so each second compilation comes
    // after k other compilations in the same process)
    let mut j1 = Job::new("");
    j1.srcs = texts.iter().map(|t| t.0.clone()).collect();
    j1.steps = (0..k).map(step).chain((0..k).map(step)).collect();
    j1.steps.push(Step::Counters);
    j1.cpu_s = 20;
    // process 2: a fresh process, reverse order
    let mut j2 = j1.clone();
    j2.steps = (0..k).rev().map(step).collect();
    j2.steps.push(Step::Counters);
    let r1 = ctx.exec(&j1)?;
    let r2 = ctx.exec(&j2)?;
    let mut outs = vec![];
    for (i, (text, family)) in texts.iter().enumerate() {
        let mut o = CaseOutcome {
            key: fnv(text.as_bytes()),
            classes: vec![format!("family:{family}")],
            evals: 3,
            ..Default::default()
        };
        let single = |text: &str| {
            let mut j = Job::new(text.to_string());
            j.steps = vec![step(0), step(0), Step::Counters];
            j.cpu_s = 10;
            j
        };
        let mk = |kind: &str, msg: String| {
            Failure::new(kind, format!("{msg}\n  text: {text:?}"))
                .key("family", *family)
                .direct(json!({"form": "c12", "job": single(text)}))
        };
        // where did each process die, if it did?
        let died1 = end_failure(&r1).map(|f| (f, r1.died_in.unwrap_or(usize::MAX)));
        let died2 = end_failure(&r2).map(|f| (f, r2.died_in.unwrap_or(usize::MAX)));
        let idx2 = k - 1 - i;
        let affected = died1.as_ref().map_or(false, |(_, d)| *d <= i || (*d >= k && *d <= k + i))
            || died2.as_ref().map_or(false, |(_, d)| *d <= idx2);
        if affected {
            // re-run alone to attribute the death
            let j = single(text);
            let r = ctx.exec(&j)?;
            o.evals += 1;
            if let Some(f) = end_failure(&r) {
                let kind = if f.kind == "timeout" { "compile_timeout" } else { f.kind.as_str() }.to_string();
                let mut f = f.direct(json!({"form": "c12", "job": j})).key("family", *family);
                f.kind = kind;
                f.message = format!("{}\n  text: {text:?}", f.message);
                o.failures.push(f);
            } else {
                o.inconclusive = true;
            }
            outs.push(o);
            continue;
        }
        let (a, b, c) = (r1.step(i), r1.step(k + i), r2.step(idx2));
        for x in [a, b, c] {
            if let Out::Panic { msg, loc } = x {
                o.failures.push(mk("panic", format!("the compiler panicked: {msg} at {loc}")).key("panic", super::common::norm_panic(msg)));
                break;
            }
        }
        if o.failures.is_empty() {
            let (ka, kb, kc) = (outcome_key(a), outcome_key(b), outcome_key(c));
            if ka != kb {
                o.failures.push(
                    mk("nondeterministic", format!("the same text compiled twice in one process (the second time after {k} other compilations):\n  first:  {ka}\n  second: {kb}"))
                        .direct(json!({"form": "c12", "job": j1, "compare": [i, k + i]})),
                );
            } else if ka != kc {
                o.failures.push(
                    mk("nondeterministic", format!("the same text compiled in two processes:\n  one:   {ka}\n  other: {kc}"))
                        .direct(json!({"form": "c12x", "a": j1, "b": j2, "ia": i, "ib": idx2})),
                );
            }
        }
        match a {
            Out::Done => {
                o.nontrivial = true;
                o.classes.push("accepted".into());
            }
            Out::CompileError { class, text: et } => {
                o.classes.push(format!("rejected:{class}"));
                o.nontrivial = class != "Syntax" || syntax_error_fraction(text, et) >= 0.5 || *family == "literal";
            }
            _ => {}
        }
        o.sample = Some(json!({"text": text, "outcome": outcome_key(a).chars().take(160).collect::<String>()}));
        outs.push(o);
    }
    // no runtime exists while compiling: the doubles must be untouched
    for r in [&r1, &r2] {
        if let Some(Out::Counters { writer_calls, clock_reads, rng_created, rng_draws, .. }) = r.steps.last() {
            if writer_calls + clock_reads + rng_created + rng_draws != 0 {
                if let Some(o) = outs.first_mut() {
                    o.failures.push(
                        Failure::new("effect_during_compilation", format!("recording doubles touched while only compiling: writer {writer_calls}, clock {clock_reads}, rng {rng_created}+{rng_draws}"))
                            .direct(json!({"form": "c12", "job": j1})),
                    );
                }
            }
        }
    }
    Ok(outs)
}

/// accepted programs: two independent compilations, two limit configurations, same behaviour
fn run_behaviour(t: &mut Tape, ctx: &mut Ctx) -> Result<CaseOutcome, HarnessError> {
    let c = corpus();
    let scripts: Vec<&String> = c.iter().filter(|s| s.contains("fn main()")).collect();
    let text = if scripts.is_empty() || t.below(4) == 0 { gen_mutation(t) } else { (*t.pick(&scripts)).clone() };
    let uses_effects = ["random", "shuffle", "sample", "now(", "sleep", "regex"].iter().any(|k| text.contains(k));
    // compilations that precede the second compilation of the program: mutated scripts, and texts
    // that fail half-way through a phase (state left behind by a failed compilation must not leak)
    const POISON: &[&str] = &[
        "let s = \"chapter one\\qtwo\";",
        "let f = f\"left{1}right\\q\";",
        "let q = 'it\\z';",
        "let n = 0x_;",
        "let z = item99999999999;",
        "let a = \"unterminated",
        "struct Half(a: int\nlet b = 1;",
        "fn f(x: int) -> int { x + \"s\" }",
        "let u = \"\\u{d800} tail\";",
        "let j = join([\"a\", \"b\"], \"sep\\q\");",
    ];
    let fresh_std = t.bool();
    let mut others: Vec<String> = (0..t.below(4)).map(|_| gen_mutation(t)).collect();
    for _ in 0..t.below(4) {
        others.push(t.pick(POISON).to_string());
    }
    let mut o = CaseOutcome {
        key: fnv(text.as_bytes()),
        classes: vec!["family:behaviour".into()],
        evals: 2,
        ..Default::default()
    };
    let mk_job = |limits: Limits, pre: &[String]| {
        let mut j = Job::new("");
        j.srcs = vec![text.clone()];
        j.srcs.extend(pre.iter().cloned());
        // other compilations first (fresh scopes), then the program in the pristine scope
        j.steps = (0..pre.len()).map(|i| Step::CompileFresh { src: i + 1 }).collect();
        if fresh_std && !pre.is_empty() {
            j.steps.push(Step::NewStdScope);
        }
        j.steps.push(Step::Compile { src: 0 });
        j.steps.push(Step::Instantiate);
        j.steps.push(Step::Run { name: "main".into() });
        j.steps.push(Step::DumpAll);
        j.limits = limits;
        j.cpu_s = 20;
        j
    };
    let ja = mk_job(Limits::default(), &[]);
    let jb = mk_job(
        Limits { size: Some(1 << 32), depth: Some(100_000), calls: Some(1 << 40), search: Some(1 << 40), recursion: Some(1 << 40), ..Limits::default() },
        &others,
    );
    let (ra, rb) = (ctx.exec(&ja)?, ctx.exec(&jb)?);
    if end_failure(&ra).is_some() || end_failure(&rb).is_some() {
        // crashes of accepted programs are C01's business; here only determinism
        o.inconclusive = true;
        return Ok(o);
    }
    let (accepted, comparable, a, fail) = compare_behaviour(&ja, &jb, &ra, &rb, uses_effects, &text);
    if let Some(f) = fail {
        o.failures.push(f);
    }
    o.nontrivial = accepted && comparable;
    o.classes.push(if accepted { "accepted".into() } else { "rejected".into() });
    o.sample = Some(json!({"text": text.chars().take(200).collect::<String>(), "main": a.get(2), "output": ra.output.chars().take(80).collect::<String>()}));
    Ok(o)
}

fn compare_behaviour(ja: &Job, jb: &Job, ra: &Reply, rb: &Reply, uses_effects: bool, text: &str) -> (bool, bool, Vec<String>, Option<Failure>) {
    let na = ja.steps.len();
    let nb = jb.steps.len();
    let pick = |r: &Reply, n: usize| -> Vec<String> { (n - 4..n).map(|i| outcome_key(r.step(i))).collect() };
    let (a, b) = (pick(ra, na), pick(rb, nb));
    let accepted = a[0] == "accepted";
    let comparable = !uses_effects && !a.iter().chain(b.iter()).any(|s| s.starts_with("violation") || s.starts_with("panic"));
    let direct = json!({"form": "c12_behaviour", "a": ja, "b": jb, "uses_effects": uses_effects});
    let mut fail = None;
    if a[0] != b[0] {
        fail = Some(
            Failure::new("nondeterministic", format!("acceptance differs between two compilations:\n  {}\n  {}\n  text: {text:?}", a[0], b[0]))
                .key("family", "behaviour")
                .direct(direct),
        );
    } else if accepted && comparable && (a != b || ra.output != rb.output) {
        fail = Some(
            Failure::new(
                "behaviour_depends_on_limits_or_history",
                format!("an accepted program behaves differently in two independent compilations under different (passing) limits:\n  A: {:?} output {:?}\n  B: {:?} output {:?}\n  text: {text:?}", a, ra.output, b, rb.output),
            )
            .key("family", "behaviour")
            .direct(direct),
        );
    }
    (accepted, comparable, a, fail)
}

impl Property for C12 {
    fn id(&self) -> &'static str {
        "C12"
    }
    fn rule(&self) -> String {
        "soup: 1-40 tokens from a 130-token alphabet of the grammar (keywords, identifiers incl. item<N> forms, every numeric-literal shape incl. malformed ones, string / fenced / raw / formatted literals incl. unterminated ones and bad escapes, all punctuation and operators, comments, non-ASCII and control characters), half of them with brackets balanced up to depth 64, and skeletons (let / fn / struct / typed let / generic fn with default / containers) with soups in type and expression positions. literal: numeric literals of 1-60 digits with separators, hex / binary of any length, exponents, item<N> identifiers of any length, string forms with escapes / fences / prefixes, tuple items, format specifiers. corpus: the 421 shipped scripts and the book's code blocks under 1-4 token mutations (delete, duplicate, swap, replace from the alphabet or the same file, truncate, splice from another script, insert, retype). Each text is compiled three times - twice in one process (the second time after all the other texts of the batch) and once in another process in reverse order - in a brand-new scope each time (empty scope for soup / literal, standard library for corpus). Oracle: no panic, no crash, within the CPU budget; identical acceptance and byte-identical error text in all three; recording doubles untouched. behaviour: shipped scripts and accepted mutants compiled independently twice (once after other compilations) and run under two passing limit configurations: same main result, same dump of all top-level values (sets / mappings sorted), same output. Non-trivial = accepted, or rejected after the parser (non-syntax class), or a syntax error in the second half of the text, or a literal case.".into()
    }
    fn assumptions(&self) -> Vec<String> {
        vec!["programs that use randomness, the clock, sleep or regex are excluded from the behavioural comparison".into()]
    }
    fn families(&self, tier: Tier) -> Vec<Family> {
        let k = if tier == Tier::Quick { 1 } else { 25 };
        vec![
            Family { name: "soup", batches: 270 * k, batch_size: 60, tape_len: 90 },
            Family { name: "literal", batches: 130 * k, batch_size: 60, tape_len: 90 },
            Family { name: "corpus", batches: 330 * k, batch_size: 8, tape_len: 60 },
            Family { name: "behaviour", batches: 270 * k, batch_size: 1, tape_len: 60 },
        ]
    }
    fn run_batch(&self, family: &str, subs: &[Vec<u8>], ctx: &mut Ctx) -> Result<Vec<CaseOutcome>, HarnessError> {
        match family {
            "behaviour" => {
                let mut outs = vec![];
                for s in subs {
                    let mut t = Tape::new(s);
                    outs.push(run_behaviour(&mut t, ctx)?);
                }
                Ok(outs)
            }
            "corpus" => {
                let texts = subs.iter().map(|s| (gen_mutation(&mut Tape::new(s)), "corpus")).collect();
                run_texts(texts, true, ctx)
            }
            "literal" => {
                let texts = subs.iter().map(|s| (gen_literal_text(&mut Tape::new(s)), "literal")).collect();
                run_texts(texts, false, ctx)
            }
            _ => {
                let texts = subs
                    .iter()
                    .map(|s| {
                        let mut t = Tape::new(s);
                        (if t.below(3) == 0 { gen_structured(&mut t) } else { gen_soup(&mut t) }, "soup")
                    })
                    .collect();
                run_texts(texts, false, ctx)
            }
        }
    }
    fn check_direct(&self, direct: &Value, ctx: &mut Ctx) -> Result<Option<Failure>, HarnessError> {
        match direct["form"].as_str() {
            Some("c12") => {
                let job: Job = serde_json::from_value(direct["job"].clone()).map_err(|e| HarnessError(e.to_string()))?;
                let r = ctx.exec(&job)?;
                if let Some(f) = end_failure(&r) {
                    return Ok(Some(f.direct(direct.clone())));
                }
                if let Some(p) = r.steps.iter().find(|s| s.is_panic()) {
                    return Ok(Some(Failure::new("panic", brief(p)).direct(direct.clone())));
                }
                let (x, y) = match direct["compare"].as_array() {
                    Some(c) => (c[0].as_u64().unwrap_or(0) as usize, c[1].as_u64().unwrap_or(1) as usize),
                    None => (0, 1),
                };
                if r.steps.len() > y && outcome_key(r.step(x)) != outcome_key(r.step(y)) {
                    return Ok(Some(Failure::new("nondeterministic", format!("two compilations of one text differ:\n  {}\n  {}", outcome_key(r.step(x)), outcome_key(r.step(y)))).direct(direct.clone())));
                }
                Ok(None)
            }
            Some("c12x") => {
                let ja: Job = serde_json::from_value(direct["a"].clone()).map_err(|e| HarnessError(e.to_string()))?;
                let jb: Job = serde_json::from_value(direct["b"].clone()).map_err(|e| HarnessError(e.to_string()))?;
                let (ra, rb) = (ctx.exec(&ja)?, ctx.exec(&jb)?);
                for r in [&ra, &rb] {
                    if let Some(f) = end_failure(r) {
                        return Ok(Some(f.direct(direct.clone())));
                    }
                }
                let (x, y) = (direct["ia"].as_u64().unwrap_or(0) as usize, direct["ib"].as_u64().unwrap_or(0) as usize);
                if outcome_key(ra.step(x)) != outcome_key(rb.step(y)) {
                    return Ok(Some(Failure::new("nondeterministic", format!("the same text compiled in two processes:\n  {}\n  {}", outcome_key(ra.step(x)), outcome_key(rb.step(y)))).direct(direct.clone())));
                }
                Ok(None)
            }
            Some("c12_behaviour") => {
                let ja: Job = serde_json::from_value(direct["a"].clone()).map_err(|e| HarnessError(e.to_string()))?;
                let jb: Job = serde_json::from_value(direct["b"].clone()).map_err(|e| HarnessError(e.to_string()))?;
                let (ra, rb) = (ctx.exec(&ja)?, ctx.exec(&jb)?);
                if end_failure(&ra).is_some() || end_failure(&rb).is_some() {
                    return Ok(None);
                }
                let text = ja.srcs.first().cloned().unwrap_or_default();
                Ok(compare_behaviour(&ja, &jb, &ra, &rb, direct["uses_effects"].as_bool().unwrap_or(false), &text).3)
            }
            _ => crate::direct::check_generic(direct, ctx),
        }
    }
}
