//! C19 — derived eq/hash/cmp/to_str are coherent; formatting follows the specifier grammar;
//! sorting and order statistics are right, also when the comparator fails midway.
use super::common::*;
use crate::direct::{end_failure, make_direct};
use crate::dump::*;
use crate::expect::{brief, satisfied, Expect};
use crate::pool::HarnessError;
use crate::proto::*;
use crate::runner::*;
use crate::tape::{fnv, Tape};
use serde_json::{json, Value};
use std::cmp::Ordering;
use std::collections::{BTreeMap, BTreeSet};

pub struct C19;

// ------------------------------------------------------------------ values

#[derive(Clone, Debug, PartialEq)]
enum Ty {
    Int,
    Str,
    Bool,
    Float,
    Tuple(Vec<Ty>),
    Seq(Box<Ty>),
    Opt(Box<Ty>),
    Stack(Box<Ty>),
    Set,
    Map,
}

#[derive(Clone, Debug, PartialEq)]
enum V {
    Int(i64),
    Str(String),
    Bool(bool),
    Float(f64),
    Tuple(Vec<V>),
    Seq(Vec<V>),
    Opt(Option<Box<V>>),
    Stack(Vec<V>),
    Set(BTreeSet<i64>),
    Map(BTreeMap<i64, i64>),
}

impl Ty {
    fn src(&self) -> String {
        match self {
            Ty::Int => "int".into(),
            Ty::Str => "str".into(),
            Ty::Bool => "bool".into(),
            Ty::Float => "float".into(),
            Ty::Tuple(v) => format!("({})", v.iter().map(|t| t.src()).collect::<Vec<_>>().join(", ")),
            Ty::Seq(t) => format!("Sequence<{}>", t.src()),
            Ty::Opt(t) => format!("Optional<{}>", t.src()),
            Ty::Stack(t) => format!("Stack<{}>", t.src()),
            Ty::Set => "Set<int>".into(),
            Ty::Map => "Mapping<int, int>".into(),
        }
    }
    fn cmpable(&self) -> bool {
        match self {
            Ty::Int | Ty::Str | Ty::Bool | Ty::Float => true,
            Ty::Tuple(v) => v.iter().all(|t| t.cmpable()),
            Ty::Seq(t) => t.cmpable(),
            _ => false,
        }
    }
    fn hashable(&self) -> bool {
        match self {
            Ty::Int | Ty::Str | Ty::Bool | Ty::Set | Ty::Map => true,
            Ty::Float => false,
            Ty::Tuple(v) => v.iter().all(|t| t.hashable()),
            Ty::Seq(t) | Ty::Opt(t) | Ty::Stack(t) => t.hashable(),
        }
    }
    fn printable(&self) -> bool {
        match self {
            Ty::Int | Ty::Str | Ty::Bool | Ty::Float => true,
            Ty::Tuple(v) => v.iter().all(|t| t.printable()),
            Ty::Seq(t) | Ty::Opt(t) => t.printable(),
            _ => false,
        }
    }
}

fn gen_ty(t: &mut Tape, depth: u32) -> Ty {
    let n = if depth == 0 { 4 } else { 10 };
    match t.below(n) {
        0 => Ty::Int,
        1 => Ty::Str,
        2 => Ty::Bool,
        3 => Ty::Float,
        4 | 5 => {
            let k = 1 + t.below(3);
            Ty::Tuple((0..k).map(|_| gen_ty(t, depth - 1)).collect())
        }
        6 => Ty::Seq(Box::new(gen_ty(t, depth - 1))),
        7 => Ty::Opt(Box::new(gen_ty(t, depth - 1))),
        8 => Ty::Stack(Box::new(gen_ty(t, depth - 1))),
        _ => {
            if t.bool() {
                Ty::Set
            } else {
                Ty::Map
            }
        }
    }
}

fn gen_val(t: &mut Tape, ty: &Ty) -> V {
    match ty {
        // few distinct values: many ties
        Ty::Int => V::Int(*t.pick(&[0i64, 1, 2, -1, 3, 9223372036854775807, -5])),
        Ty::Str => V::Str(t.pick(&["", "a", "b", "ab", "é", "a b", "B"]).to_string()),
        Ty::Bool => V::Bool(t.bool()),
        Ty::Float => V::Float(*t.pick(&[0.0, -0.0, 1.0, -1.0, 1.5, 2.0, 1e300, -0.5, 0.0])),
        Ty::Tuple(ts) => V::Tuple(ts.iter().map(|x| gen_val(t, x)).collect()),
        Ty::Seq(e) => V::Seq((0..t.below(4)).map(|_| gen_val(t, e)).collect()),
        Ty::Opt(e) => {
            if t.below(3) == 0 {
                V::Opt(None)
            } else {
                V::Opt(Some(Box::new(gen_val(t, e))))
            }
        }
        Ty::Stack(e) => V::Stack((0..t.below(4)).map(|_| gen_val(t, e)).collect()),
        Ty::Set => V::Set((0..t.below(5)).map(|_| t.range(0, 5)).collect()),
        Ty::Map => V::Map((0..t.below(5)).map(|_| (t.range(0, 4), t.range(0, 3))).collect()),
    }
}

/// a small change somewhere inside (often deep): same type, usually a different value
fn mutate(t: &mut Tape, ty: &Ty, v: &V) -> V {
    match (ty, v) {
        (Ty::Tuple(ts), V::Tuple(vs)) if !vs.is_empty() => {
            let i = t.below(vs.len());
            let mut r = vs.clone();
            r[i] = mutate(t, &ts[i], &vs[i]);
            V::Tuple(r)
        }
        (Ty::Seq(e), V::Seq(vs)) => {
            let mut r = vs.clone();
            match t.below(3) {
                0 if !r.is_empty() => {
                    let i = t.below(r.len());
                    r[i] = mutate(t, e, &vs[i]);
                }
                1 if !r.is_empty() => {
                    r.pop();
                }
                _ => r.push(gen_val(t, e)),
            }
            V::Seq(r)
        }
        (Ty::Stack(e), V::Stack(vs)) => {
            let mut r = vs.clone();
            if !r.is_empty() && t.bool() {
                let i = t.below(r.len());
                r[i] = mutate(t, e, &vs[i]);
            } else {
                r.push(gen_val(t, e));
            }
            V::Stack(r)
        }
        (Ty::Opt(e), V::Opt(Some(x))) if t.bool() => V::Opt(Some(Box::new(mutate(t, e, x)))),
        _ => gen_val(t, ty),
    }
}

fn dump_v(v: &V) -> Value {
    match v {
        V::Int(i) => d_i64(*i),
        V::Str(s) => d_str(s),
        V::Bool(b) => d_bool(*b),
        V::Float(f) => d_float(*f),
        V::Tuple(vs) => d_tuple(vs.iter().map(dump_v).collect()),
        V::Seq(vs) => d_seq(vs.iter().map(dump_v).collect()),
        V::Opt(o) => d_opt(o.as_ref().map(|x| dump_v(x))),
        V::Stack(vs) => d_stack(vs.iter().map(dump_v).collect()),
        V::Set(s) => d_set(s.iter().map(|x| d_i64(*x)).collect()),
        V::Map(m) => d_map(m.iter().map(|(k, v)| (d_i64(*k), d_i64(*v))).collect()),
    }
}

fn lit(i: i64) -> String {
    if i < 0 {
        format!("({i})")
    } else {
        i.to_string()
    }
}

fn default_src(ty: &Ty) -> String {
    match ty {
        Ty::Int => "0".into(),
        Ty::Str => "\"\"".into(),
        Ty::Bool => "false".into(),
        Ty::Float => "0.0".into(),
        Ty::Tuple(ts) => {
            let p: Vec<String> = ts.iter().map(default_src).collect();
            if p.len() == 1 {
                format!("({},)", p[0])
            } else {
                format!("({})", p.join(", "))
            }
        }
        Ty::Seq(e) => format!("take([{}], 0)", default_src(e)),
        Ty::Opt(e) => format!("then(false, {})", default_src(e)),
        Ty::Stack(e) => format!("take([{}], 0).to_stack()", default_src(e)),
        Ty::Set => "set<int>()".into(),
        Ty::Map => "mapping<int>().set(0, 0).discard(0)".into(),
    }
}

/// source text for a value; `alt` asks for a different construction route of the same value
fn render(v: &V, ty: &Ty, alt: bool, t: &mut Tape) -> String {
    match (v, ty) {
        (V::Int(i), _) => {
            if alt && *i < 1 << 60 && *i > -(1 << 60) {
                let k = t.range(1, 9);
                format!("({} - {})", lit(i + k), k)
            } else {
                lit(*i)
            }
        }
        (V::Str(s), _) => {
            if alt && s.chars().count() >= 2 {
                let cs: Vec<char> = s.chars().collect();
                let a: String = cs[..1].iter().collect();
                let b: String = cs[1..].iter().collect();
                format!("({} + {})", str_src(&a), str_src(&b))
            } else {
                str_src(s)
            }
        }
        (V::Bool(b), _) => b.to_string(),
        (V::Float(f), _) => {
            if alt && f.abs() < 1e100 {
                format!("({} * 0.5)", float_src(f * 2.0))
            } else {
                float_src(*f)
            }
        }
        (V::Tuple(vs), Ty::Tuple(ts)) => {
            let p: Vec<String> = vs.iter().zip(ts).map(|(x, tt)| render(x, tt, alt, t)).collect();
            if p.len() == 1 {
                format!("({},)", p[0])
            } else {
                format!("({})", p.join(", "))
            }
        }
        (V::Seq(vs), Ty::Seq(e)) => {
            if vs.is_empty() {
                return default_src(ty);
            }
            let p: Vec<String> = vs.iter().map(|x| render(x, e, alt, t)).collect();
            if alt && p.len() >= 2 {
                // another representation: a chain of two arrays, or pushed
                if t.bool() {
                    format!("([{}] + [{}])", p[..1].join(", "), p[1..].join(", "))
                } else {
                    format!("[{}].push({})", p[..p.len() - 1].join(", "), p[p.len() - 1])
                }
            } else {
                format!("[{}]", p.join(", "))
            }
        }
        (V::Opt(None), _) => default_src(ty),
        (V::Opt(Some(x)), Ty::Opt(e)) => format!("some({})", render(x, e, alt, t)),
        (V::Stack(vs), Ty::Stack(e)) => {
            if vs.is_empty() {
                return default_src(ty);
            }
            let p: Vec<String> = vs.iter().map(|x| render(x, e, alt, t)).collect();
            if alt {
                format!("[{}].to_stack().push({})", p[..p.len() - 1].join(", "), p[p.len() - 1])
                    .replace("[].to_stack()", &default_src(ty))
            } else {
                format!("[{}].to_stack()", p.join(", "))
            }
        }
        (V::Set(s), _) => {
            if s.is_empty() {
                return if alt {
                    "set<int>().add(7).discard(7)".into()
                } else {
                    default_src(ty)
                };
            }
            let mut items: Vec<i64> = s.iter().copied().collect();
            if alt {
                // other insertion order, a duplicate, and an element inserted then removed
                items.reverse();
                items.push(items[0]);
                format!(
                    "set<int>().update([{}]).add(99).remove(99)",
                    items.iter().map(|x| lit(*x)).collect::<Vec<_>>().join(", ")
                )
            } else {
                format!(
                    "set<int>().update([{}])",
                    items.iter().map(|x| lit(*x)).collect::<Vec<_>>().join(", ")
                )
            }
        }
        (V::Map(m), _) => {
            if m.is_empty() {
                return default_src(ty);
            }
            let mut items: Vec<(i64, i64)> = m.iter().map(|(k, v)| (*k, *v)).collect();
            if alt {
                items.reverse();
                // a value written first and then overwritten
                let first = items[0];
                items.insert(0, (first.0, first.1 + 5));
            }
            format!(
                "mapping<int>().update([{}])",
                items
                    .iter()
                    .map(|(k, v)| format!("({}, {})", lit(*k), lit(*v)))
                    .collect::<Vec<_>>()
                    .join(", ")
            )
        }
        _ => default_src(ty),
    }
}

fn cmp_v(a: &V, b: &V) -> Ordering {
    match (a, b) {
        (V::Int(x), V::Int(y)) => x.cmp(y),
        (V::Str(x), V::Str(y)) => x.chars().cmp(y.chars()),
        (V::Bool(x), V::Bool(y)) => x.cmp(y),
        (V::Float(x), V::Float(y)) => x.partial_cmp(y).unwrap_or(Ordering::Equal),
        (V::Tuple(x), V::Tuple(y)) | (V::Seq(x), V::Seq(y)) => {
            for (p, q) in x.iter().zip(y) {
                let c = cmp_v(p, q);
                if c != Ordering::Equal {
                    return c;
                }
            }
            x.len().cmp(&y.len())
        }
        _ => Ordering::Equal,
    }
}

fn sign(o: Ordering) -> i64 {
    match o {
        Ordering::Less => -1,
        Ordering::Equal => 0,
        Ordering::Greater => 1,
    }
}

fn gen_law_case(t: &mut Tape) -> ValCase {
    let ty = gen_ty(t, 2);
    let x = gen_val(t, &ty);
    let y = match t.below(5) {
        0 | 1 => x.clone(),
        2 | 3 => mutate(t, &ty, &x),
        _ => gen_val(t, &ty),
    };
    let z = match t.below(4) {
        0 => y.clone(),
        1 => x.clone(),
        2 => mutate(t, &ty, &y),
        _ => gen_val(t, &ty),
    };
    let ts = ty.src();
    let mut lines = vec![
        format!("let x: {ts} = {};", render(&x, &ty, false, t)),
        format!("let y: {ts} = {};", render(&y, &ty, true, t)),
        format!("let z: {ts} = {};", render(&z, &ty, false, t)),
    ];
    let mut parts: Vec<String> = vec![];
    let mut types: Vec<String> = vec![];
    let mut exp: Vec<Value> = vec![];
    let mut push = |src: &str, ty: &str, e: Value| {
        parts.push(src.to_string());
        types.push(ty.to_string());
        exp.push(e);
    };
    let (exy, eyz, exz) = (x == y, y == z, x == z);
    push("x == y", "bool", d_bool(exy));
    push("y == x", "bool", d_bool(exy));
    push("x != y", "bool", d_bool(!exy));
    push("x == x", "bool", d_bool(true));
    push("y == z", "bool", d_bool(eyz));
    push("x == z", "bool", d_bool(exz));
    push("[x] == [y]", "bool", d_bool(exy));
    push("some(x) == some(y)", "bool", d_bool(exy));
    push("(x, 1) == (y, 1)", "bool", d_bool(exy));
    if ty.cmpable() {
        let (cxy, cyz, cxz) = (cmp_v(&x, &y), cmp_v(&y, &z), cmp_v(&x, &z));
        push("cmp(x, y)", "int", d_i64(sign(cxy)));
        push("cmp(y, x)", "int", d_i64(-sign(cxy)));
        push("cmp(y, z)", "int", d_i64(sign(cyz)));
        push("cmp(x, z)", "int", d_i64(sign(cxz)));
        push("x < y", "bool", d_bool(cxy == Ordering::Less));
        push("x <= y", "bool", d_bool(cxy != Ordering::Greater));
        push("x > y", "bool", d_bool(cxy == Ordering::Greater));
        push("x >= y", "bool", d_bool(cxy != Ordering::Less));
        push("cmp([x, z], [y, z])", "int", d_i64(sign(if cxy == Ordering::Equal { Ordering::Equal } else { cxy })));
        push("cmp((z, x), (z, y))", "int", d_i64(sign(cxy)));
        let mn = if cxy == Ordering::Greater { &y } else { &x };
        let mx = if cxy == Ordering::Less { &y } else { &x };
        push("min(x, y)", &ts, dump_v(mn));
        push("max(x, y)", &ts, dump_v(mx));
        // sorting three values agrees with cmp
        let mut sorted = vec![x.clone(), y.clone(), z.clone()];
        sorted.sort_by(cmp_v);
        push(
            "sort([x, y, z])",
            &format!("Sequence<{ts}>"),
            d_seq(sorted.iter().map(dump_v).collect()),
        );
    }
    if ty.hashable() {
        lines.push("let hx = hash(x);".into());
        push("hx == hash(y)", "bool", if exy { d_bool(true) } else { d_any() });
        push("hash(y) == hash(z)", "bool", if eyz { d_bool(true) } else { d_any() });
        push("hx >= 0 && hx < 18446744073709551616", "bool", d_bool(true));
        push("hash([x]) == hash([y])", "bool", if exy { d_bool(true) } else { d_any() });
        push("hash((x, 1)) == hash((y, 1))", "bool", if exy { d_bool(true) } else { d_any() });
    }
    if ty.printable() {
        push("to_str(x) == to_str(y)", "bool", if exy { d_bool(true) } else { d_any() });
    }
    if matches!(ty, Ty::Int | Ty::Str | Ty::Float) {
        push("format(x, \"\") == to_str(x)", "bool", d_bool(true));
    }
    let body = format!("{}\n  ({})", lines.join("\n  "), parts.join(", "));
    let ret = format!("({})", types.join(", "));
    let mut c = ValCase::new(&ret, body, Expect::Dump { dump: d_tuple(exp) });
    let nested = !matches!(ty, Ty::Int | Ty::Str | Ty::Bool | Ty::Float);
    c.nontrivial = nested && (exy || x != y);
    c.describe = format!("laws on {ts}");
    let kind = format!("{ty:?}");
    c.key("type", kind.split('(').next().unwrap_or("").to_string())
        .class(format!("type:{}", kind.split('(').next().unwrap_or("")))
        .class(if exy { "pair:equal" } else { "pair:different" })
}

// ------------------------------------------------------------------ format

fn group3(digits: &str, sep: char) -> String {
    let cs: Vec<char> = digits.chars().collect();
    let mut out = String::new();
    for (i, c) in cs.iter().enumerate() {
        if i > 0 && (cs.len() - i) % 3 == 0 {
            out.push(sep);
        }
        out.push(*c);
    }
    out
}

fn pad(sign: &str, body: &str, fill: Option<char>, align: Option<char>, zero: bool, width: usize) -> Option<String> {
    let len = sign.chars().count() + body.chars().count();
    let fillc = fill.unwrap_or(if zero { '0' } else { ' ' });
    let align = align.unwrap_or(if zero { '=' } else { '>' });
    let n = width.saturating_sub(len);
    let f = |k: usize| fillc.to_string().repeat(k);
    Some(match align {
        '<' => format!("{sign}{body}{}", f(n)),
        '>' => format!("{}{sign}{body}", f(n)),
        '=' => format!("{sign}{}{body}", f(n)),
        '^' => {
            if n % 2 == 1 {
                // which side gets the odd character is not documented
                return None;
            }
            format!("{}{sign}{body}{}", f(n / 2), f(n / 2))
        }
        _ => return None,
    })
}

fn gen_format_case(t: &mut Tape) -> ValCase {
    let fill = if t.below(3) == 0 { Some(*t.pick(&['*', '_', ' ', 'x', '0', '.'])) } else { None };
    let align = if fill.is_some() || t.bool() {
        Some(*t.pick(&['<', '>', '^', '=']))
    } else {
        None
    };
    let sign = if t.below(3) == 0 { Some(*t.pick(&['+', '-', ' '])) } else { None };
    let zero = t.below(4) == 0;
    let width = if t.below(3) != 0 { t.range(1, 14) as usize } else { 0 };
    let mut spec = String::new();
    if let Some(a) = align {
        if let Some(f) = fill {
            spec.push(f);
        }
        spec.push(a);
    }
    let kind = t.below(3);
    let sign_text = |neg: bool| -> &'static str {
        if neg {
            "-"
        } else {
            match sign {
                Some('+') => "+",
                Some(' ') => " ",
                _ => "",
            }
        }
    };
    let mut underspecified = false;
    let (ret_body, expect, describe): (String, Expect, String) = match kind {
        0 => {
            // int
            let v: i64 = *t.pick(&[0, 5, -5, 42, 255, -255, 1000, 1234567, -1234567, 9223372036854775807]);
            let grouping = if t.below(3) == 0 { Some(*t.pick(&[',', '_'])) } else { None };
            let (ty, radix) = *t.pick(&[("", 10u32), ("", 10), ("x", 16), ("b", 2), ("o", 8)]);
            let alt = t.below(4) == 0;
            if let Some(s) = sign {
                spec.push(s);
            }
            if alt {
                spec.push('#');
            }
            if zero {
                spec.push('0');
            }
            if width > 0 {
                spec.push_str(&width.to_string());
            }
            if let Some(g) = grouping {
                spec.push(g);
            }
            spec.push_str(ty);
            let mag = num_bigint::BigInt::from(v).magnitude().to_str_radix(radix);
            let body = match grouping {
                Some(g) if radix == 10 => group3(&mag, g),
                Some(_) => {
                    // the group size for non-decimal bases is not documented
                    underspecified = true;
                    mag.clone()
                }
                None => mag.clone(),
            };
            let mut s = sign_text(v < 0).to_string();
            let e = if alt && ty.is_empty() {
                Expect::Error { msg: None }
            } else {
                if alt {
                    s.push('0');
                    s.push_str(ty);
                }
                let padded = if width > 0 {
                    pad(&s, &body, fill, align, zero, width)
                } else {
                    Some(format!("{s}{body}"))
                };
                match padded {
                    Some(p) if !underspecified => Expect::Dump { dump: d_str(&p) },
                    _ => {
                        underspecified = true;
                        Expect::ValueOrError
                    }
                }
            };
            (
                format!("format({}, {})", lit(v), str_src(&spec)),
                e,
                format!("format int {v} with {spec:?}"),
            )
        }
        1 => {
            // str: fill, align, width only
            let v = t.pick(&["", "a", "abc", "héllo", "x y"]).to_string();
            if zero {
                spec.push('0');
            }
            if width > 0 {
                spec.push_str(&width.to_string());
            }
            let e = if align == Some('=') && width > 0 {
                Expect::Error { msg: None }
            } else if zero {
                // zero padding of a string is not documented
                underspecified = true;
                Expect::ValueOrError
            } else {
                let padded = if width > 0 { pad("", &v, fill, align, false, width) } else { Some(v.clone()) };
                match padded {
                    Some(p) => Expect::Dump { dump: d_str(&p) },
                    None => {
                        underspecified = true;
                        Expect::ValueOrError
                    }
                }
            };
            (
                format!("format({}, {})", str_src(&v), str_src(&spec)),
                e,
                format!("format str {v:?} with {spec:?}"),
            )
        }
        _ => {
            // float: fixed-point and percent with a precision
            let v: f64 = *t.pick(&[0.0, 1.5, -1.5, 3.14159, 1234567.891, -0.001, 100.0, 0.5, 2.675]);
            let grouping = if t.below(4) == 0 { Some(*t.pick(&[',', '_'])) } else { None };
            let prec = t.range(0, 6) as usize;
            let pct = t.below(4) == 0;
            if let Some(s) = sign {
                spec.push(s);
            }
            if zero {
                spec.push('0');
            }
            if width > 0 {
                spec.push_str(&width.to_string());
            }
            if let Some(g) = grouping {
                spec.push(g);
            }
            spec.push_str(&format!(".{prec}"));
            spec.push_str(if pct { "%" } else { "f" });
            let mag = if pct { (v * 100.0).abs() } else { v.abs() };
            let fixed = format!("{mag:.prec$}");
            let (whole, frac) = match fixed.split_once('.') {
                Some((w, f)) => (w.to_string(), Some(f.to_string())),
                None => (fixed.clone(), None),
            };
            let mut body = match grouping {
                Some(g) => group3(&whole, g),
                None => whole,
            };
            if let Some(f) = frac {
                body.push('.');
                body.push_str(&f);
            }
            if pct {
                body.push('%');
            }
            let s = sign_text(v < 0.0);
            let padded = if width > 0 {
                pad(s, &body, fill, align, zero, width)
            } else {
                Some(format!("{s}{body}"))
            };
            let e = match padded {
                Some(p) => Expect::Dump { dump: d_str(&p) },
                None => {
                    underspecified = true;
                    Expect::ValueOrError
                }
            };
            (
                format!("format({}, {})", float_src(v), str_src(&spec)),
                e,
                format!("format float {v} with {spec:?}"),
            )
        }
    };
    let mut c = ValCase::new("str", ret_body, expect);
    c.nontrivial = spec.len() >= 2 && !underspecified;
    c.underspecified = underspecified;
    c.describe = describe;
    c.key("spec", spec)
        .key("kind", ["int", "str", "float"][kind])
        .class(format!("format:{}", ["int", "str", "float"][kind]))
}

// ------------------------------------------------------------------ sorting

#[derive(Clone, Copy, Debug, PartialEq)]
enum SortFn {
    Sort,
    SortReverse,
    NSmallest,
    NLargest,
    NthSmallest,
    NthLargest,
    Median,
    Min,
    Max,
}

fn sort_limits() -> Limits {
    Limits {
        // a size limit turns the byte accounting on
        size: Some(1 << 30),
        search: Some(1_000_000),
        depth: Some(300),
        ..Limits::default()
    }
}

fn run_sort_case(t: &mut Tape, ctx: &mut Ctx) -> Result<CaseOutcome, HarnessError> {
    let len = match t.below(4) {
        0 => t.below(4),
        1 => 18 + t.below(8),
        2 => t.below(60),
        _ => t.below(201),
    };
    let nkeys = 1 + t.below(6) as i64;
    let keys: Vec<i64> = (0..len).map(|_| t.range(0, nkeys - 1)).collect();
    let f = *t.pick(&[
        SortFn::Sort,
        SortFn::Sort,
        SortFn::SortReverse,
        SortFn::NSmallest,
        SortFn::NLargest,
        SortFn::NthSmallest,
        SortFn::NthLargest,
        SortFn::Median,
        SortFn::Min,
        SortFn::Max,
    ]);
    let n = if len == 0 { 0 } else { t.below(len + 2) };
    // failure mode: none, an element whose comparison is an error, or a call limit that
    // trips at the k-th comparison
    let fail = t.below(4);
    let poison = if len > 0 { t.below(len) } else { 0 };
    let arr = if keys.is_empty() {
        "take([(0, 0)], 0)".to_string()
    } else {
        format!(
            "[{}]",
            keys.iter()
                .enumerate()
                .map(|(i, k)| format!("({k}, {i})"))
                .collect::<Vec<_>>()
                .join(", ")
        )
    };
    let cmp_src = if fail == 1 {
        format!(
            "(a: (int, int), b: (int, int)) -> {{ if(a::item1 == {poison} || b::item1 == {poison}, error(\"boom\"), cmp(a::item0, b::item0)) }}"
        )
    } else {
        "(a: (int, int), b: (int, int)) -> { cmp(a::item0, b::item0) }".to_string()
    };
    let lt_src = if fail == 1 {
        format!(
            "(a: (int, int), b: (int, int)) -> {{ if(a::item1 == {poison} || b::item1 == {poison}, error(\"boom\"), a::item0 < b::item0) }}"
        )
    } else {
        "(a: (int, int), b: (int, int)) -> { a::item0 < b::item0 }".to_string()
    };
    let mut stable: Vec<(i64, usize)> = keys.iter().copied().zip(0..).collect();
    stable.sort_by_key(|p| p.0);
    let mut stable_rev: Vec<(i64, usize)> = keys.iter().copied().zip(0..).collect();
    stable_rev.sort_by_key(|p| std::cmp::Reverse(p.0));
    let pairs = |v: &[(i64, usize)]| d_seq(v.iter().map(|(k, i)| d_tuple(vec![d_i64(*k), d_i64(*i as i64)])).collect());
    let keys_only = |v: &[(i64, usize)]| d_seq(v.iter().map(|(k, _)| d_i64(*k)).collect());
    let err = Expect::Error { msg: None };
    let (call, ret, ok_expect): (String, &str, Expect) = match f {
        SortFn::Sort => (
            format!("sort(s, {cmp_src})"),
            "Sequence<(int, int)>",
            Expect::Dump { dump: pairs(&stable) },
        ),
        SortFn::SortReverse => {
            // ties: the reverse of the stable order, or the stable order under the reversed
            // comparator; the book does not say which
            let mut rev_of_stable = stable.clone();
            rev_of_stable.reverse();
            (
                format!("sort_reverse(s, {cmp_src})"),
                "Sequence<(int, int)>",
                Expect::OneOf {
                    alts: vec![
                        Expect::Dump { dump: pairs(&stable_rev) },
                        Expect::Dump { dump: pairs(&rev_of_stable) },
                    ],
                },
            )
        }
        SortFn::NSmallest => (
            format!("n_smallest(s, {n}, {cmp_src}).map((p: (int, int)) -> {{ p::item0 }})"),
            "Sequence<int>",
            Expect::Dump { dump: keys_only(&stable[..n.min(len)]) },
        ),
        SortFn::NLargest => (
            format!("n_largest(s, {n}, {cmp_src}).map((p: (int, int)) -> {{ p::item0 }})"),
            "Sequence<int>",
            Expect::Dump { dump: keys_only(&stable_rev[..n.min(len)]) },
        ),
        SortFn::NthSmallest => (
            format!("nth_smallest(s, {n}, {cmp_src})::item0"),
            "int",
            if n < len { Expect::Dump { dump: d_i64(stable[n].0) } } else { err.clone() },
        ),
        SortFn::NthLargest => (
            format!("nth_largest(s, {n}, {cmp_src})::item0"),
            "int",
            if n < len { Expect::Dump { dump: d_i64(stable_rev[n].0) } } else { err.clone() },
        ),
        SortFn::Median => (
            format!("median(s, {cmp_src})::item0"),
            "int",
            if len > 0 {
                // with an even length either middle element is a median
                let mut alts = vec![Expect::Dump { dump: d_i64(stable[len / 2].0) }];
                if len % 2 == 0 {
                    alts.push(Expect::Dump { dump: d_i64(stable[len / 2 - 1].0) });
                }
                Expect::OneOf { alts }
            } else {
                err.clone()
            },
        ),
        SortFn::Min => (
            format!("min(s, {lt_src})::item0"),
            "int",
            if len > 0 { Expect::Dump { dump: d_i64(stable[0].0) } } else { err.clone() },
        ),
        SortFn::Max => (
            format!("max(s, {lt_src})::item0"),
            "int",
            if len > 0 { Expect::Dump { dump: d_i64(stable_rev[0].0) } } else { err.clone() },
        ),
    };
    let src = format!("let s = {arr};\nfn c0() -> {ret} {{\n  {call}\n}}\n");
    let mk_job = |calls: Option<u64>| {
        let mut job = Job::new(src.clone());
        job.steps = vec![
            Step::Compile { src: 0 },
            Step::Instantiate,
            Step::Counters,
            Step::Run { name: "c0".into() },
            Step::Counters,
        ];
        job.limits = sort_limits();
        job.limits.calls = calls;
        job.cpu_s = 20;
        job
    };
    let key = fnv(format!("{src}{fail}").as_bytes());
    let mut o = CaseOutcome {
        key,
        nontrivial: len >= 21 || fail != 0,
        classes: vec![
            format!("fn:{f:?}"),
            format!("fail:{}", ["none", "error_element", "call_limit", "none"][fail]),
            if len >= 21 { "len:merge_path".into() } else { "len:short".into() },
        ],
        evals: 0,
        ..Default::default()
    };
    let fkeys = |fl: Failure| {
        fl.key("fn", format!("{f:?}"))
            .key("fail", ["none", "error_element", "call_limit", "none"][fail])
            .key("len", if len >= 21 { "long" } else { "short" })
    };
    // the unlimited run: value (or the poison error) and no leak
    let job = mk_job(None);
    let reply = ctx.exec(&job)?;
    o.evals += 1;
    if let Some(fl) = end_failure(&reply) {
        o.failures.push(fkeys(fl.direct(json!({"form": "no_crash", "job": job}))));
        return Ok(o);
    }
    let out = reply.step(3).clone();
    let expect = if fail == 1 && len >= 2 {
        // whatever the algorithm, the poisoned element takes part in a comparison
        // (selection of the only element aside)
        Expect::OneOf { alts: vec![err.clone(), ok_expect.clone()] }
    } else {
        ok_expect.clone()
    };
    if !satisfied(&expect, &out) {
        let kind = if out.is_panic() { "panic" } else { "value_mismatch" };
        o.failures.push(fkeys(
            Failure::new(
                kind,
                format!(
                    "{f:?} over {len} elements ({nkeys} distinct keys), fail mode {fail}\n  call: {call}\n  keys: {keys:?}\n  expected: {}\n  observed: {}",
                    serde_json::to_string(&expect).unwrap_or_default(),
                    brief(&out)
                ),
            )
            .direct(make_direct(&job, &[(3, expect.clone())])),
        ));
    }
    if fail == 1 && len >= 2 && matches!(f, SortFn::Sort | SortFn::SortReverse) && !matches!(out, Out::Error { .. }) {
        o.failures.push(fkeys(
            Failure::new(
                "swallowed_failure",
                format!("{f:?}: the comparator failed for element {poison} but the sort returned {}", brief(&out)),
            )
            .direct(make_direct(&job, &[(3, err.clone())])),
        ));
    }
    let bytes = |r: &Reply, i: usize| match r.step(i) {
        Out::Counters { bytes, .. } => Some(*bytes),
        _ => None,
    };
    let leak_check = |r: &Reply, o: &mut CaseOutcome, job: &Job, what: &str| {
        if let (Some(b0), Some(b1)) = (bytes(r, 2), bytes(r, 4)) {
            if b0 != b1 {
                o.failures.push(fkeys(
                    Failure::new(
                        "leak",
                        format!(
                            "{f:?} over {len} elements ({what}): accounted bytes {b0} before the call, {b1} after its result was dropped\n  call: {call}"
                        ),
                    )
                    .direct(json!({"form": "c19_leak", "job": job})),
                ));
            }
        }
    };
    leak_check(&reply, &mut o, &job, "unlimited run");
    let ud_calls = match reply.step(4) {
        Out::Counters { .. } => None::<u64>,
        _ => None,
    };
    let _ = ud_calls;
    if fail == 2 && len >= 2 {
        // sweep the call limit: the comparator is the only user function, so limit k trips at
        // the k-th comparison.  Outcome must be the violation or the unlimited result; never
        // anything else; no leak either way.
        let mut k = 1u64;
        let mut steps = 0;
        loop {
            let j = mk_job(Some(k));
            let r = ctx.exec(&j)?;
            o.evals += 1;
            steps += 1;
            if let Some(fl) = end_failure(&r) {
                o.failures.push(fkeys(fl.direct(json!({"form": "no_crash", "job": j}))));
                break;
            }
            let out_k = r.step(3).clone();
            let is_violation = matches!(&out_k, Out::Violation { v } if v == "MaximumUDCall");
            if !is_violation && out_k != out {
                o.failures.push(fkeys(
                    Failure::new(
                        "limit_changed_result",
                        format!(
                            "{f:?} over {len} elements with call limit {k}: observed {} but the unlimited run gives {}\n  call: {call}",
                            brief(&out_k),
                            brief(&out)
                        ),
                    )
                    .direct(make_direct(&j, &[(3, Expect::OneOf { alts: vec![Expect::Violation { v: "MaximumUDCall".into() }, ok_expect.clone()] })])),
                ));
                break;
            }
            leak_check(&r, &mut o, &j, &format!("call limit {k}"));
            if !is_violation || steps >= 40 {
                break;
            }
            // dense at the start, then geometric
            k = if k < 12 { k + 1 } else { k + 1 + k / 3 };
        }
    }
    o.sample = Some(json!({"call": call, "len": len, "distinct_keys": nkeys, "fail_mode": fail, "observed": brief(&out)}));
    o.evals = o.evals.max(1);
    Ok(o)
}

impl Property for C19 {
    fn id(&self) -> &'static str {
        "C19"
    }
    fn rule(&self) -> String {
        "laws: triples (x, y, z) of one nested type (int, float, str, bool, tuple, Sequence, Optional, Stack, Set, Mapping; depth <= 3, sizes 0-4, few distinct leaves so ties are common; y is a copy built by another route, a deep mutation, or fresh) - ==, !=, cmp, < <= > >=, min/max, sort of the triple, hash equality and range, to_str equality, and the same through enclosing [..], some(..) and (.., 1), all compared with a structural model. format: specifiers from [[fill]align][sign][#][0][width][grouping][.precision][mode] over ints (decimal, x, b, o), strs and floats (f, %), compared with a model of the documented grammar. sort: sort, sort_reverse, n_smallest/largest, nth_smallest/largest, median, min, max over 0-200 (key, id) pairs with 1-6 distinct keys and a comparator that only looks at the key (stability is observable), with a poisoned element whose comparison is an error, or a call limit swept over the comparisons; the result must be the reference stable selection, or the failure; accounted bytes after dropping the result equal those before the call. Non-trivial = nested type (laws), a specifier of at least 2 characters with a documented meaning (format), length >= 21 or a failing comparator (sort).".into()
    }
    fn assumptions(&self) -> Vec<String> {
        vec![
            "digit groups are 3 digits for decimal output; grouping in other bases, the side of an odd centring pad, zero-padding of strings, exponent modes of floats are not documented and only run for crashes".into(),
            "ties of sort_reverse: either the reverse of the stable order or the stable order under the reversed comparator".into(),
            "fixed-point rounding of floats is that of the Rust standard library (trusted base)".into(),
        ]
    }
    fn families(&self, tier: Tier) -> Vec<Family> {
        let k = if tier == Tier::Quick { 1 } else { 25 };
        vec![
            Family {
                name: "laws",
                batches: 500 * k,
                batch_size: 12,
                tape_len: 160,
            },
            Family {
                name: "format",
                batches: 100 * k,
                batch_size: 50,
                tape_len: 40,
            },
            Family {
                name: "sort",
                batches: 420 * k,
                batch_size: 1,
                tape_len: 300,
            },
        ]
    }
    fn run_batch(&self, family: &str, subs: &[Vec<u8>], ctx: &mut Ctx) -> Result<Vec<CaseOutcome>, HarnessError> {
        match family {
            "sort" => {
                let mut outs = vec![];
                for s in subs {
                    let mut t = Tape::new(s);
                    outs.push(run_sort_case(&mut t, ctx)?);
                }
                Ok(outs)
            }
            _ => {
                let cases: Vec<ValCase> = subs
                    .iter()
                    .map(|s| {
                        let mut t = Tape::new(s);
                        if family == "format" {
                            gen_format_case(&mut t)
                        } else {
                            gen_law_case(&mut t)
                        }
                    })
                    .collect();
                run_val_batch(cases, ctx, "value_mismatch")
            }
        }
    }
    fn check_direct(&self, direct: &Value, ctx: &mut Ctx) -> Result<Option<Failure>, HarnessError> {
        if direct["form"].as_str() == Some("c19_leak") {
            let job: Job = serde_json::from_value(direct["job"].clone())
                .map_err(|e| HarnessError(format!("bad direct job: {e}")))?;
            let r = ctx.exec(&job)?;
            if let Some(f) = end_failure(&r) {
                return Ok(Some(f.direct(direct.clone())));
            }
            if let (Out::Counters { bytes: b0, .. }, Out::Counters { bytes: b1, .. }) = (r.step(2), r.step(4)) {
                if b0 != b1 {
                    return Ok(Some(
                        Failure::new("leak", format!("accounted bytes {b0} before, {b1} after")).direct(direct.clone()),
                    ));
                }
            }
            return Ok(None);
        }
        crate::direct::check_generic(direct, ctx)
    }
}
