//! C03 — lexical scoping, closures and one-time defaults; forward gating.
//!
//! shapes: random trees of nested functions in which every declaration carries a distinct
//! constant and every function returns a weighted sum of names chosen at all visible ancestor
//! distances, so that a wrong capture cell changes the value; shadowing chains, escaping
//! closures (returned, stored, passed to higher-order functions, called several times), bounded
//! self-recursion through captured names, defaults that print and mention captured values,
//! and identifier spellings from the whole grammar.  Oracle: the reference evaluator
//! (engine/src/reval.rs).  forward: templates that invoke, by several routes, a function that
//! transitively needs an unfulfilled forward declaration: they must be rejected at compile
//! time, and the same program with the use after the fulfilment must run and agree.
use crate::direct::end_failure;
use crate::dump::matches;
use crate::pool::HarnessError;
use crate::proto::*;
use crate::reval::*;
use crate::runner::*;
use crate::tape::{fnv, Tape};
use num_bigint::BigInt;
use serde_json::{json, Value};
use std::collections::BTreeMap;

pub struct C03;

/// identifier spellings the grammar admits, chosen to provoke an interner or lexer confusion
const SPELLINGS: &[&str] = &[
    "a", "b", "x", "_", "__", "_a", "a_", "item", "item0x", "item1x", "item12x", "Item1", "itemized", "items", "item_1", "iff", "if_", "fnx", "letx", "let_", "forwardx", "structure",
    "unionize", "truex", "falsey", "none_", "somex", "x1", "x_1", "X", "aB", "Ab", "a1b2", "longer_identifier_with_many_parts", "aaaaaaaaaaaaaaaaaaaaaaaaaaaaaaaaaaaaaaaa", "i", "l", "O0", "q_q",
    "selfx", "intx", "str_", "boolx", "Tt", "errorx", "displayx", "ge_", "lt_", "add_", "neg_", "item00", "item01", "item_", "itemitem1", "xitem1", "zz9",
];

struct G<'a, 'b> {
    t: &'a mut Tape<'b>,
    prefix: String,
    used: Vec<String>,
    next_const: i64,
    next_weight: i64,
    display_id: i64,
    // statistics
    max_capture_distance: u32,
    shadow_with_capture: u32,
    escaping_called_twice: u32,
    recursion: u32,
    defaults: u32,
}

#[derive(Clone)]
struct Vis {
    name: String,
    ty: T,
    /// nesting level of the declaring scope (0 = top level)
    level: u32,
}

#[derive(Clone)]
struct VisFn {
    name: String,
    params: Vec<T>,
    optional: usize,
    ret: T,
    level: u32,
}

#[derive(Clone, Default)]
struct Sc {
    vars: Vec<Vis>,
    fns: Vec<VisFn>,
}

fn int(i: i64) -> E {
    E::Int(BigInt::from(i))
}

fn fn_int() -> T {
    T::Fn(vec![T::Int], Box::new(T::Int))
}

impl<'a, 'b> G<'a, 'b> {
    fn fresh_name(&mut self) -> String {
        // distinct spellings are bound to distinct values; reuse happens only through `shadow`
        for _ in 0..8 {
            let s = *self.t.pick(SPELLINGS);
            let n = format!("{}{}", self.prefix, s);
            if !self.used.contains(&n) {
                self.used.push(n.clone());
                return n;
            }
        }
        let n = format!("{}v{}", self.prefix, self.used.len());
        self.used.push(n.clone());
        n
    }

    fn constant(&mut self) -> i64 {
        self.next_const += 1 + self.t.below(3) as i64;
        self.next_const
    }

    fn weight(&mut self) -> i64 {
        self.next_weight = self.next_weight * 3 % 1009 + 2;
        self.next_weight
    }

    /// an int expression over the visible names: a weighted sum, so that every name matters
    fn sum(&mut self, sc: &Sc, level: u32, terms: usize, depth: u32) -> E {
        let mut acc: Option<E> = None;
        for _ in 0..terms.max(1) {
            let term = self.term(sc, level, depth);
            let w = self.weight();
            let weighted = E::Bin("mul", Box::new(term), Box::new(int(w)), Style::Operator);
            acc = Some(match acc {
                None => weighted,
                Some(a) => E::Bin("add", Box::new(a), Box::new(weighted), Style::Operator),
            });
        }
        acc.unwrap()
    }

    fn note_use(&mut self, decl_level: u32, level: u32) {
        self.max_capture_distance = self.max_capture_distance.max(level.saturating_sub(decl_level));
    }

    fn term(&mut self, sc: &Sc, level: u32, depth: u32) -> E {
        let ints: Vec<Vis> = sc.vars.iter().filter(|v| v.ty == T::Int).cloned().collect();
        let fvals: Vec<Vis> = sc.vars.iter().filter(|v| v.ty == fn_int()).cloned().collect();
        match self.t.below(8) {
            0 | 1 | 2 if !ints.is_empty() => {
                // prefer far names: the interesting captures
                let v = if self.t.bool() { ints[self.t.below(ints.len().min(3))].clone() } else { ints[self.t.below(ints.len())].clone() };
                self.note_use(v.level, level);
                E::Var(v.name)
            }
            3 | 4 if !sc.fns.is_empty() && depth > 0 => {
                let f = sc.fns[self.t.below(sc.fns.len())].clone();
                self.note_use(f.level, level);
                let n_args = f.params.len() - if f.optional > 0 { self.t.below(f.optional + 1) } else { 0 };
                let args: Vec<E> = f.params[..n_args].iter().map(|p| self.arg(p, sc, level, depth - 1)).collect();
                let call = E::Call(f.name.clone(), args, false);
                match &f.ret {
                    T::Int => call,
                    // a function that returns a closure: call the result, sometimes twice
                    _ => {
                        let c = self.constant();
                        let once = E::CallV(Box::new(call.clone()), vec![int(c)]);
                        if self.t.below(3) == 0 {
                            self.escaping_called_twice += 1;
                            E::Bin("sub", Box::new(once), Box::new(E::CallV(Box::new(call), vec![int(c + 1)])), Style::Operator)
                        } else {
                            once
                        }
                    }
                }
            }
            5 if !fvals.is_empty() => {
                let v = fvals[self.t.below(fvals.len())].clone();
                self.note_use(v.level, level);
                let a = self.arg(&T::Int, sc, level, 0);
                E::CallV(Box::new(E::Var(v.name)), vec![a])
            }
            6 if depth > 0 => {
                // immediately applied lambda capturing the scope
                let p = self.fresh_name();
                let mut inner = sc.clone();
                inner.vars.insert(0, Vis { name: p.clone(), ty: T::Int, level: level + 1 });
                let body = self.sum(&inner, level + 1, 2, depth - 1);
                let a = self.arg(&T::Int, sc, level, 0);
                E::CallV(Box::new(E::Lambda(vec![(p, T::Int, None)], Box::new(Body { decls: vec![], ret: body }))), vec![a])
            }
            7 if depth > 0 => {
                // closures that escape through a compound: stored in an array or a tuple, fetched, called
                let f1 = self.arg(&fn_int(), sc, level, 0);
                let f2 = self.arg(&fn_int(), sc, level, 0);
                let a = self.arg(&T::Int, sc, level, 0);
                let k = self.t.below(2);
                let callee = if self.t.bool() {
                    E::Index(Box::new(E::Arr(vec![f1, f2])), Box::new(int(k as i64)), Style::Operator)
                } else {
                    let c = self.constant();
                    E::Item(Box::new(E::Tup(vec![f1, int(c), f2])), if k == 0 { 0 } else { 2 })
                };
                E::CallV(Box::new(callee), vec![a])
            }
            _ => int(self.constant()),
        }
    }

    fn arg(&mut self, ty: &T, sc: &Sc, level: u32, depth: u32) -> E {
        match ty {
            T::Int => {
                if depth > 0 && self.t.bool() {
                    self.sum(sc, level, 1, depth)
                } else {
                    let ints: Vec<&Vis> = sc.vars.iter().filter(|v| v.ty == T::Int).collect();
                    if !ints.is_empty() && self.t.bool() {
                        let v = ints[self.t.below(ints.len())].clone();
                        self.note_use(v.level, level);
                        E::Var(v.name)
                    } else {
                        int(self.constant())
                    }
                }
            }
            _ => {
                // a function value: an existing function variable, a named (int)->int function, or a lambda
                let fvals: Vec<&Vis> = sc.vars.iter().filter(|v| v.ty == *ty).collect();
                let named: Vec<&VisFn> = sc.fns.iter().filter(|f| f.params == vec![T::Int] && f.optional == 0 && f.ret == T::Int).collect();
                match self.t.below(3) {
                    0 if !fvals.is_empty() => E::Var(fvals[self.t.below(fvals.len())].name.clone()),
                    1 if !named.is_empty() => E::Var(named[self.t.below(named.len())].name.clone()),
                    _ => {
                        let p = self.fresh_name();
                        let mut inner = sc.clone();
                        inner.vars.insert(0, Vis { name: p.clone(), ty: T::Int, level: level + 1 });
                        let body = self.sum(&inner, level + 1, 2, 0);
                        E::Lambda(vec![(p, T::Int, None)], Box::new(Body { decls: vec![], ret: body }))
                    }
                }
            }
        }
    }

    /// declarations of one scope followed by its result expression
    fn scope(&mut self, sc: &mut Sc, level: u32, ret: &T, budget: &mut u32) -> Body {
        let mut decls = vec![];
        let n = 1 + self.t.below(4);
        for _ in 0..n {
            if self.t.exhausted() {
                break;
            }
            match self.t.below(10) {
                0 | 1 | 2 | 3 => {
                    // let with a distinct constant or a sum of visible names
                    let name = self.fresh_name();
                    let e = if self.t.bool() { int(self.constant()) } else { self.sum(sc, level, 2, 1) };
                    sc.vars.insert(0, Vis { name: name.clone(), ty: T::Int, level });
                    decls.push(Decl::Let(name, e));
                }
                4 => {
                    // shadowing: re-declare a visible int name after (maybe) a closure captured it
                    let ints: Vec<Vis> = sc.vars.iter().filter(|v| v.ty == T::Int).cloned().collect();
                    if let Some(v) = ints.get(self.t.below(ints.len().max(1))).cloned() {
                        // a closure over the old binding first
                        let keep = self.fresh_name();
                        let p = self.fresh_name();
                        let w = self.weight();
                        let body = E::Bin("add", Box::new(E::Bin("mul", Box::new(E::Var(v.name.clone())), Box::new(int(w)), Style::Operator)), Box::new(E::Var(p.clone())), Style::Operator);
                        self.note_use(v.level, level + 1);
                        decls.push(Decl::Let(keep.clone(), E::Lambda(vec![(p, T::Int, None)], Box::new(Body { decls: vec![], ret: body }))));
                        sc.vars.insert(0, Vis { name: keep, ty: fn_int(), level });
                        let c = self.constant();
                        decls.push(Decl::Let(v.name.clone(), int(c)));
                        // the new binding hides the old one from here on
                        sc.vars.retain(|x| x.name != v.name);
                        sc.vars.insert(0, Vis { name: v.name.clone(), ty: T::Int, level });
                        // call the closure AFTER the re-declaration: it must still see the old binding
                        let probe = self.fresh_name();
                        let pc = self.constant();
                        let keep_name = match &decls[decls.len() - 2] {
                            Decl::Let(n, _) => n.clone(),
                            _ => unreachable!(),
                        };
                        decls.push(Decl::Let(probe.clone(), E::CallV(Box::new(E::Var(keep_name)), vec![int(pc)])));
                        sc.vars.insert(0, Vis { name: probe, ty: T::Int, level });
                        self.shadow_with_capture += 1;
                    }
                }
                5 => {
                    // a function value stored in a variable (escapes its defining expression)
                    let name = self.fresh_name();
                    let e = self.arg(&fn_int(), sc, level, 1);
                    sc.vars.insert(0, Vis { name: name.clone(), ty: fn_int(), level });
                    decls.push(Decl::Let(name, e));
                }
                _ => {
                    if *budget > 0 && level < 5 {
                        *budget -= 1;
                        let f = self.function(sc, level);
                        let listed = sc.fns.iter().any(|x| x.name == f.name);
                        let (fname, fparams) = (f.name.clone(), f.params.clone());
                        decls.push(Decl::Fn(f));
                        if !listed {
                            // a recursive function: bind one call with a small first argument
                            let mut args = vec![int(1 + self.t.below(4) as i64)];
                            for (_, _, dflt) in fparams.iter().skip(1) {
                                if dflt.is_none() {
                                    args.push(int(self.constant()));
                                }
                            }
                            let n = self.fresh_name();
                            decls.push(Decl::Let(n.clone(), E::Call(fname, args, false)));
                            sc.vars.insert(0, Vis { name: n, ty: T::Int, level });
                        }
                    }
                }
            }
        }
        let r = match ret {
            T::Int => self.sum(sc, level, 3, 2),
            _ => self.arg(ret, sc, level, 1),
        };
        Body { decls, ret: r }
    }

    fn function(&mut self, sc: &mut Sc, level: u32) -> FnDecl {
        let name = self.fresh_name();
        let kind = self.t.below(6);
        let np = self.t.below(3);
        let mut params: Vec<(String, T, Option<Box<E>>)> = vec![];
        let n_opt = if np > 0 { [0, 0, 1, 2][self.t.below(4)].min(np) } else { 0 };
        for i in 0..np {
            let pn = if self.t.below(4) == 0 && !sc.vars.is_empty() {
                // a parameter that shadows an outer variable
                let v = sc.vars[self.t.below(sc.vars.len())].name.clone();
                if params.iter().any(|p| p.0 == v) {
                    self.fresh_name()
                } else {
                    v
                }
            } else {
                self.fresh_name()
            };
            let default = if i >= np - n_opt {
                self.defaults += 1;
                self.display_id += 1;
                let e = self.sum(sc, level, 2, 0);
                Some(Box::new(E::Call("display".into(), vec![e, E::Str(format!("default{}:", self.display_id))], false)))
            } else {
                None
            };
            params.push((pn, T::Int, default));
        }
        let mut inner = sc.clone();
        for (n, t, _) in &params {
            inner.vars.retain(|x| x.name != *n);
            inner.vars.insert(0, Vis { name: n.clone(), ty: t.clone(), level: level + 1 });
        }
        let ret = if kind == 0 { fn_int() } else { T::Int };
        let mut budget = 2;
        let body = if kind == 1 && !params.is_empty() && params[0].2.is_none() {
            // bounded self recursion through captured names
            self.recursion += 1;
            let p0 = params[0].0.clone();
            let base = self.sum(&inner, level + 1, 2, 0);
            let step = self.sum(&inner, level + 1, 1, 0);
            let mut rec_args = vec![E::Bin("sub", Box::new(E::Var(p0.clone())), Box::new(int(1)), Style::Operator)];
            for (n, _, d) in params.iter().skip(1) {
                if d.is_none() {
                    rec_args.push(E::Var(n.clone()));
                }
            }
            let rec = E::Call(name.clone(), rec_args, false);
            let cond = E::Bin("le", Box::new(E::Var(p0)), Box::new(int(0)), Style::Operator);
            Body { decls: vec![], ret: E::Call("if".into(), vec![cond, base, E::Bin("add", Box::new(rec), Box::new(step), Style::Operator)], false) }
        } else {
            self.scope(&mut inner, level + 1, &ret, &mut budget)
        };
        let recursive = kind == 1 && !params.is_empty() && params[0].2.is_none();
        let sig = VisFn { name: name.clone(), params: params.iter().map(|p| p.1.clone()).collect(), optional: n_opt, ret: ret.clone(), level };
        // recursive functions are only called with a small literal first argument: keep them out of
        // the general pool and bind a call result instead
        if !recursive {
            sc.fns.insert(0, sig);
        }
        FnDecl { name, params, ret, body }
    }
}

struct Case {
    prefix: String,
    src: String,
    tops: Vec<(String, V)>,
    out: Vec<String>,
    nontrivial: bool,
    classes: Vec<String>,
    exhausted: bool,
}

fn gen_case(sub: &[u8], prefix: &str) -> Case {
    let mut t = Tape::new(sub);
    let mut g = G { t: &mut t, prefix: prefix.to_string(), used: vec![], next_const: 10, next_weight: 7, display_id: 0, max_capture_distance: 0, shadow_with_capture: 0, escaping_called_twice: 0, recursion: 0, defaults: 0 };
    let mut sc = Sc::default();
    let mut budget = 6;
    let mut prog = Prog::default();
    let mut decls = vec![];
    let rounds = 2 + g.t.below(4);
    for _ in 0..rounds {
        let body = g.scope(&mut sc, 0, &T::Int, &mut budget);
        decls.extend(body.decls.iter().cloned());
        let n = g.fresh_name();
        sc.vars.insert(0, Vis { name: n.clone(), ty: T::Int, level: 0 });
        decls.push(Decl::Let(n, body.ret));
    }
    prog.decls = decls;
    let src = Printer { prog: &prog, full_parens: false }.program();
    let (tops, m) = run_model(&prog);
    let nontrivial = g.max_capture_distance >= 2 || g.shadow_with_capture > 0 || g.escaping_called_twice > 0;
    let classes = vec![
        format!("capture_distance:{}", g.max_capture_distance.min(4)),
        format!("shadowing_with_capture:{}", if g.shadow_with_capture > 0 { "yes" } else { "no" }),
        format!("escaping_closure_called_twice:{}", if g.escaping_called_twice > 0 { "yes" } else { "no" }),
        format!("recursion_through_captures:{}", if g.recursion > 0 { "yes" } else { "no" }),
        format!("printing_defaults:{}", if g.defaults > 0 { "yes" } else { "no" }),
    ];
    // the last value of a shadowed top-level name is the one the interpreter reports
    let mut last: BTreeMap<String, V> = BTreeMap::new();
    for (n, v) in &tops {
        last.insert(n.clone(), v.clone());
    }
    Case { prefix: prefix.to_string(), src, tops: last.into_iter().collect(), out: m.out.iter().map(|l| l.0.clone()).collect(), nontrivial, classes, exhausted: m.exhausted }
}

fn observed_vars(o: &Out) -> BTreeMap<String, Out> {
    let mut m = BTreeMap::new();
    if let Out::All { vars } = o {
        for (n, _, out) in vars {
            m.insert(n.clone(), (**out).clone());
        }
    }
    m
}

fn batch_job(srcs: &[(String, String)]) -> Job {
    let mut j = Job::new("");
    j.srcs = vec![];
    j.steps = vec![];
    for (prefix, src) in srcs {
        j.srcs.push(src.clone());
        j.steps.push(Step::Compile { src: j.srcs.len() - 1 });
        j.srcs.push(format!("let {prefix}zz9end = display(\"#END {prefix}\");"));
        j.steps.push(Step::Compile { src: j.srcs.len() - 1 });
    }
    j.steps.push(Step::Instantiate);
    j.steps.push(Step::DumpAll);
    j.cpu_s = 30;
    j
}

fn slice_output<'a>(output: &'a str, prefixes: &[String], k: usize) -> Vec<&'a str> {
    let lines: Vec<&str> = output.lines().collect();
    let end = lines.iter().position(|l| *l == format!("#END {}", prefixes[k])).unwrap_or(lines.len());
    let start = (0..k).rev().find_map(|p| lines.iter().position(|l| *l == format!("#END {}", prefixes[p])).map(|i| i + 1)).unwrap_or(0);
    lines[start.min(end)..end].to_vec()
}

fn compare(c: &Case, obs: &BTreeMap<String, Out>, got: &[&str]) -> Option<String> {
    for (name, v) in &c.tops {
        if matches!(v, V::Fn(_)) {
            continue;
        }
        let want = v.dump();
        match obs.get(name) {
            Some(Out::Value { dump }) => {
                if matches!(v, V::Err(_)) || !matches(&want, dump) {
                    return Some(format!("binding {}: expected {want}, got {dump}", name.trim_start_matches(&c.prefix)));
                }
            }
            Some(Out::Error { msg }) => {
                if !matches!(v, V::Err(_)) {
                    return Some(format!("binding {}: expected {want}, got the error value {msg:?}", name.trim_start_matches(&c.prefix)));
                }
            }
            Some(other) => return Some(format!("binding {name}: expected {want}, got {}", crate::expect::brief(other))),
            None => return Some(format!("binding {name} is missing")),
        }
    }
    let strict: Vec<&str> = c.out.iter().map(|s| s.as_str()).collect();
    if strict != got {
        return Some(format!("output: expected {strict:?}, got {got:?}"));
    }
    None
}

// ------------------------------------------------------------------------------------------
// forward gating
// ------------------------------------------------------------------------------------------

struct Route {
    name: &'static str,
    /// declarations placed before the use (may be empty), `{F}` = the gated function
    setup: &'static str,
    /// an int expression that invokes the gated function
    call: &'static str,
}

const ROUTES: &[Route] = &[
    Route { name: "direct", setup: "", call: "{F}(1)" },
    Route { name: "method", setup: "", call: "(1).{F}()" },
    Route { name: "alias", setup: "let al = {F};", call: "al(1)" },
    Route { name: "alias_of_alias", setup: "let al = {F}; let al2 = al;", call: "al2(1)" },
    Route { name: "passed_to_hof", setup: "fn hof(f: (int)->(int), x: int) -> int { f(x) }", call: "hof({F}, 1)" },
    Route { name: "in_array", setup: "let arr = [{F}];", call: "arr[0](1)" },
    Route { name: "in_tuple", setup: "let tp = ({F}, 2);", call: "tp::item0(1)" },
    Route { name: "lambda_wrapper", setup: "let lw = (q: int) -> { {F}(q) };", call: "lw(1)" },
    Route { name: "named_wrapper", setup: "fn nw(q: int) -> int { {F}(q) }", call: "nw(1)" },
    Route { name: "wrapper_of_wrapper", setup: "fn nw(q: int) -> int { {F}(q) }\nfn nw2(q: int) -> int { nw(q) + 1 }", call: "nw2(1)" },
    Route { name: "lambda_in_struct", setup: "struct Holder(f: (int)->(int))\nlet hd = Holder({F});", call: "hd::f(1)" },
    Route { name: "default_value", setup: "fn dv(q: int ?= {F}(1)) -> int { q }", call: "dv()" },
    Route { name: "returned_by_function", setup: "fn giver() -> (int)->(int) { {F} }", call: "giver()(1)" },
    Route { name: "if_branch", setup: "", call: "if(true, {F}(1), 0)" },
    Route { name: "optional_map", setup: "", call: "some(1).map({F}).value()" },
    Route { name: "sequence_map", setup: "", call: "[1].map({F})[0]" },
];

/// who depends on the forward declaration
const DEPENDANTS: &[(&str, &str, &str)] = &[
    // (name, declarations after `forward fn fw(x: int) -> int;`, the gated function)
    ("the_forward_itself", "", "fw"),
    ("direct_user", "fn user(y: int) -> int { fw(y) + 1 }", "user"),
    ("transitive_user", "fn user(y: int) -> int { fw(y) + 1 }\nfn mid(z: int) -> int { user(z) * 2 }", "mid"),
    ("user_through_nested_function", "fn outer(y: int) -> int { fn inner(w: int) -> int { fw(w) + 1 }  inner(y) }", "outer"),
    ("user_through_lambda", "fn lam(y: int) -> int { ((w: int) -> { fw(w) + 1 })(y) }", "lam"),
    ("user_through_alias_inside", "fn ali(y: int) -> int { let g = fw; g(y) }", "ali"),
    ("mutual", "forward fn odd(n: int) -> bool;\nfn even(n: int) -> bool { if(n == 0, true, odd(n - 1)) }\nfn user(y: int) -> int { if(even(y), fw(y), 0) }\nfn odd(n: int) -> bool { if(n == 0, false, even(n - 1)) }", "user"),
];

fn forward_program(dep: &(&str, &str, &str), route: &Route, early: bool, nested: bool) -> String {
    let use_decl = format!("{}\nlet r = {};", route.setup.replace("{F}", dep.2), route.call.replace("{F}", dep.2));
    let fulfil = "fn fw(x: int) -> int { x + 100 }";
    let body = if early {
        format!("forward fn fw(x: int) -> int;\n{}\n{use_decl}\n{fulfil}", dep.1)
    } else {
        format!("forward fn fw(x: int) -> int;\n{}\n{fulfil}\n{use_decl}", dep.1)
    };
    if nested {
        // the whole arrangement inside a function body; the result is the function's value
        let inner = body.replace('\n', "\n  ");
        format!("fn wrap() -> int {{\n  {inner}\n  r\n}}\nlet r = wrap();")
    } else {
        body
    }
}

fn expected_value(dep: &(&str, &str, &str), route: &Route) -> i64 {
    // with the argument 1 and fw(x) = x + 100
    let v = match dep.0 {
        "the_forward_itself" | "user_through_alias_inside" => 101,
        "transitive_user" => 204,
        "mutual" => 0,
        _ => 102,
    };
    if route.name == "wrapper_of_wrapper" {
        v + 1
    } else {
        v
    }
}

impl Property for C03 {
    fn id(&self) -> &'static str {
        "C03"
    }
    fn rule(&self) -> String {
        "shapes: programs of 2-5 top-level rounds, each a scope with 1-4 declarations - lets holding a distinct constant or a weighted sum of visible names, shadowing re-declarations placed after a closure captured the old binding, function values stored in variables, and functions nested up to 5 levels with 0-2 int parameters (some shadowing an outer name, some with a default value that prints and mentions captured names), returning either a weighted sum over names visible at every ancestor distance, calls of visible functions, immediately applied lambdas, or a closure ((int)->(int)) that is then called once or twice with different arguments; bounded self-recursion through captured names; identifiers drawn from 56 spellings of the grammar (_, __, item0x, item12x, Item1, itemized, keyword prefixes, 40-character names, ...) with distinct spellings bound to distinct values. Oracle: the reference evaluator (persistent environments, closures capture the environment at creation, defaults evaluated once at creation): every top-level int binding and the output (order and number of the defaults' displays) must agree. forward: 7 kinds of dependants (the forward function itself, direct, transitive, through a nested function, a lambda, an alias inside the body, mutual recursion) x 16 routes of invocation (direct, method, alias, alias of alias, passed to a higher-order function, stored in an array / tuple / struct, lambda or named wrapper, wrapper of wrapper, default value, returned by a function, if branch, optional / sequence map) x top level or inside a function body: with the use before the fulfilment the program must be rejected at compile time; with the use after it, it must compile and give the expected value. Non-trivial = a capture at ancestor distance >= 2, or a shadowing chain with a capture in between, or an escaping closure called twice (shapes); every forward case.".into()
    }
    fn assumptions(&self) -> Vec<String> {
        vec!["function names are never reused (an inner function named like an outer one would form an overload set: C05)".into()]
    }
    fn exhaustive_part(&self) -> Option<String> {
        Some("forward gating: all 7 dependants x 16 routes x {top level, nested} x {use before, use after the fulfilment}".into())
    }
    fn families(&self, tier: Tier) -> Vec<Family> {
        let k = if tier == Tier::Quick { 1 } else { 30 };
        vec![Family { name: "shapes", batches: 900 * k, batch_size: 6, tape_len: 900 }]
    }
    fn enumerate(&self, ctx: &mut Ctx, _tier: Tier) -> Result<Vec<CaseOutcome>, HarnessError> {
        let mut outs = vec![];
        // identifier injectivity: distinct spellings (unprefixed, next to tuple item names) never alias
        let extra = ["item0", "item1", "item2", "item3x", "item10", "item1_", "item2a", "item9999999999", "item1item2", "Item0", "ITEM1", "item", "itemx1"];
        for k in 0..48u64 {
            let mut names: Vec<String> = vec![];
            let mut x = k.wrapping_mul(0x9E3779B97F4A7C15) | 1;
            while names.len() < 12 {
                x = x.wrapping_mul(6364136223846793005).wrapping_add(1442695040888963407);
                let pool_len = SPELLINGS.len() + extra.len();
                let i = (x >> 33) as usize % pool_len;
                let n = if i < SPELLINGS.len() { SPELLINGS[i] } else { extra[i - SPELLINGS.len()] }.to_string();
                if !names.contains(&n) {
                    names.push(n);
                }
            }
            let mut src = String::new();
            let mut want = vec![];
            for (i, n) in names.iter().enumerate() {
                if i % 3 == 2 {
                    src.push_str(&format!("fn {n}(q: int) -> int {{ q + {} }}\n", 500 + i));
                    want.push(crate::dump::d_i64(500 + i as i64 + 1));
                } else {
                    src.push_str(&format!("let {n} = {};\n", 100 + i));
                    want.push(crate::dump::d_i64(100 + i as i64));
                }
            }
            src.push_str("let tp = (1000, 2000, 3000);\n");
            let reads: Vec<String> = names.iter().enumerate().map(|(i, n)| if i % 3 == 2 { format!("{n}(1)") } else { n.clone() }).collect();
            src.push_str(&format!("let r = [{}, tp::item0, tp::item1, tp::item2];\n", reads.join(", ")));
            want.extend([crate::dump::d_i64(1000), crate::dump::d_i64(2000), crate::dump::d_i64(3000)]);
            let mut job = Job::new(src.clone());
            job.steps.push(Step::Get { name: "r".into() });
            let r = ctx.exec(&job)?;
            let mut o = CaseOutcome { key: fnv(src.as_bytes()), nontrivial: true, evals: 1, classes: vec!["identifier_injectivity".into()], ..Default::default() };
            let expect = crate::expect::Expect::Dump { dump: crate::dump::d_seq(want) };
            if let Some(f) = end_failure(&r) {
                o.failures.push(f.direct(crate::direct::make_direct(&job, &[(2, expect)])));
            } else if !crate::expect::satisfied(&expect, r.step(2)) {
                o.failures.push(
                    Failure::new("identifiers_alias", format!("distinct identifiers must denote distinct bindings; got {} / {}\n  {}", crate::expect::brief(r.step(0)), crate::expect::brief(r.step(2)), src.replace('\n', "\n  ")))
                        .direct(crate::direct::make_direct(&job, &[(2, expect)])),
                );
            }
            if k % 16 == 0 {
                o.sample = Some(json!({"program": src}));
            }
            outs.push(o);
        }
        for dep in DEPENDANTS {
            for route in ROUTES {
                for nested in [false, true] {
                    for early in [true, false] {
                        let src = forward_program(dep, route, early, nested);
                        let mut job = Job::new(src.clone());
                        job.steps = vec![Step::Compile { src: 0 }, Step::Instantiate, Step::Get { name: "r".into() }];
                        let r = ctx.exec(&job)?;
                        let mut o = CaseOutcome {
                            key: fnv(src.as_bytes()),
                            nontrivial: true,
                            evals: 1,
                            classes: vec![format!("forward:{}", if early { "use_before_fulfilment" } else { "use_after_fulfilment" })],
                            ..Default::default()
                        };
                        let direct = json!({"form": "c03fw", "job": job, "early": early, "value": expected_value(dep, route)});
                        let describe = format!("dependant {}, route {}, {}", dep.0, route.name, if nested { "inside a function" } else { "top level" });
                        if let Some(f) = end_failure(&r) {
                            o.failures.push(f.key("route", route.name).key("dependant", dep.0).direct(direct));
                        } else if early {
                            match r.step(0) {
                                Out::CompileError { .. } => {}
                                _ => {
                                    let got = r.steps.iter().map(crate::expect::brief).collect::<Vec<_>>().join(" / ");
                                    o.failures.push(
                                        Failure::new("forward_gating_bypassed", format!("{describe}: a function that needs an unfulfilled forward declaration is invoked before the fulfilment and the program is accepted ({got})\n  {}", src.replace('\n', "\n  ")))
                                            .key("route", route.name)
                                            .key("dependant", dep.0)
                                            .key("nested", nested.to_string())
                                            .direct(direct),
                                    );
                                }
                            }
                        } else {
                            let ok = matches!(r.step(2), Out::Value { dump } if matches(&crate::dump::d_i64(expected_value(dep, route)), dump));
                            if !ok {
                                let got = r.steps.iter().map(crate::expect::brief).collect::<Vec<_>>().join(" / ");
                                o.failures.push(
                                    Failure::new("fulfilled_forward_unusable", format!("{describe}: the use comes after the fulfilment, expected {} but got {got}\n  {}", expected_value(dep, route), src.replace('\n', "\n  ")))
                                        .key("route", route.name)
                                        .key("dependant", dep.0)
                                        .key("nested", nested.to_string())
                                        .direct(direct),
                                );
                            }
                        }
                        if outs.len() % 37 == 0 {
                            o.sample = Some(json!({"program": src, "early_use": early}));
                        }
                        outs.push(o);
                    }
                }
            }
        }
        Ok(outs)
    }
    fn run_batch(&self, _family: &str, subs: &[Vec<u8>], ctx: &mut Ctx) -> Result<Vec<CaseOutcome>, HarnessError> {
        let cases: Vec<Case> = subs.iter().enumerate().map(|(i, s)| gen_case(s, &format!("c{i}_"))).collect();
        let live: Vec<&Case> = cases.iter().filter(|c| !c.exhausted).collect();
        let prefixes: Vec<String> = live.iter().map(|c| c.prefix.clone()).collect();
        let job = batch_job(&live.iter().map(|c| (c.prefix.clone(), c.src.clone())).collect::<Vec<_>>());
        let r = ctx.exec(&job)?;
        let batch_dead = end_failure(&r).is_some() || r.steps.iter().any(|s| s.is_panic() || matches!(s, Out::Violation { .. }));
        let mut outs = vec![];
        let mut li = 0;
        for c in &cases {
            let mut o = CaseOutcome { key: fnv(c.src.as_bytes()), evals: 1, classes: c.classes.clone(), ..Default::default() };
            if c.exhausted {
                o.inconclusive = true;
                outs.push(o);
                continue;
            }
            let k = li;
            li += 1;
            let single;
            let (r1, pf, kk): (&Reply, Vec<String>, usize) = if batch_dead {
                let j1 = batch_job(&[(c.prefix.clone(), c.src.clone())]);
                single = ctx.exec(&j1)?;
                o.evals += 1;
                if let Some(f) = end_failure(&single) {
                    o.failures.push(f.direct(json!({"form": "no_crash", "job": j1})));
                    outs.push(o);
                    continue;
                }
                if let Some(p) = single.steps.iter().find(|s| s.is_panic()) {
                    o.failures.push(Failure::new("panic", format!("{}\n  {}", crate::expect::brief(p), c.src.replace('\n', "\n  "))).direct(json!({"form": "no_crash", "job": j1})));
                    outs.push(o);
                    continue;
                }
                (&single, vec![c.prefix.clone()], 0)
            } else {
                (&r, prefixes.clone(), k)
            };
            if let Out::CompileError { class, text } = r1.step(2 * kk) {
                o.inconclusive = true;
                o.classes.push(format!("generator_rejected:{class}"));
                if std::env::var("XV_DEBUG_C03").is_ok() {
                    eprintln!("REJECTED {class}: {}\n{}", text.lines().last().unwrap_or(""), c.src);
                }
                outs.push(o);
                continue;
            }
            if let Out::Violation { v } = r1.step(r1.steps.len() - 2) {
                o.inconclusive = true;
                o.classes.push(format!("violation:{}", v.split('(').next().unwrap_or("")));
                outs.push(o);
                continue;
            }
            o.nontrivial = c.nontrivial;
            let obs = observed_vars(r1.step(r1.steps.len() - 1));
            let got = slice_output(&r1.output, &pf, kk);
            if let Some(why) = compare(c, &obs, &got) {
                let direct = json!({"form": "c03", "job": batch_job(&[(c.prefix.clone(), c.src.clone())]), "prefix": c.prefix,
                    "bindings": c.tops.iter().filter(|(_, v)| !matches!(v, V::Fn(_))).map(|(n, v)| json!([n, v.dump(), matches!(v, V::Err(_))])).collect::<Vec<_>>(),
                    "output": c.out});
                o.failures.push(Failure::new("differs_from_reference", format!("{why}\n  {}", c.src.replace('\n', "\n  "))).direct(direct));
            }
            if k % 3 == 0 {
                o.sample = Some(json!({"program": c.src, "output": c.out}));
            }
            outs.push(o);
        }
        Ok(outs)
    }
    fn check_direct(&self, direct: &Value, ctx: &mut Ctx) -> Result<Option<Failure>, HarnessError> {
        match direct["form"].as_str() {
            Some("c03fw") => {
                let job: Job = serde_json::from_value(direct["job"].clone()).map_err(|e| HarnessError(e.to_string()))?;
                let r = ctx.exec(&job)?;
                if let Some(f) = end_failure(&r) {
                    return Ok(Some(f.direct(direct.clone())));
                }
                let early = direct["early"].as_bool().unwrap_or(true);
                let bad = if early {
                    !matches!(r.step(0), Out::CompileError { .. })
                } else {
                    !matches!(r.step(2), Out::Value { dump } if matches(&crate::dump::d_i64(direct["value"].as_i64().unwrap_or(0)), dump))
                };
                Ok(if bad {
                    Some(Failure::new(if early { "forward_gating_bypassed" } else { "fulfilled_forward_unusable" }, r.steps.iter().map(crate::expect::brief).collect::<Vec<_>>().join(" / ")).direct(direct.clone()))
                } else {
                    None
                })
            }
            Some("c03") => {
                let job: Job = serde_json::from_value(direct["job"].clone()).map_err(|e| HarnessError(e.to_string()))?;
                let r = ctx.exec(&job)?;
                if let Some(f) = end_failure(&r) {
                    return Ok(Some(f.direct(direct.clone())));
                }
                let obs = observed_vars(r.step(r.steps.len() - 1));
                for b in direct["bindings"].as_array().cloned().unwrap_or_default() {
                    let name = b[0].as_str().unwrap_or("");
                    let is_err = b[2].as_bool().unwrap_or(false);
                    let bad = match obs.get(name) {
                        Some(Out::Value { dump }) => is_err || !matches(&b[1], dump),
                        Some(Out::Error { .. }) => !is_err,
                        _ => true,
                    };
                    if bad {
                        return Ok(Some(Failure::new("differs_from_reference", format!("binding {name}: expected {}, got {:?}", b[1], obs.get(name).map(crate::expect::brief))).direct(direct.clone())));
                    }
                }
                let want: Vec<String> = serde_json::from_value(direct["output"].clone()).unwrap_or_default();
                let prefix = direct["prefix"].as_str().unwrap_or("").to_string();
                let got = slice_output(&r.output, &[prefix], 0);
                if want.iter().map(|s| s.as_str()).collect::<Vec<_>>() != got {
                    return Ok(Some(Failure::new("differs_from_reference", format!("output: expected {want:?}, got {got:?}")).direct(direct.clone())));
                }
                Ok(None)
            }
            _ => crate::direct::check_generic(direct, ctx),
        }
    }
}
