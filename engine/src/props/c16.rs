//! C16 — generators denote fixed lazy streams.
use super::common::*;
use crate::direct::{end_failure, make_direct};
use crate::dump::*;
use crate::expect::{brief, satisfied, Expect};
use crate::pool::HarnessError;
use crate::proto::*;
use crate::runner::*;
use crate::tape::{fnv, Tape};
use serde_json::{json, Value};
use std::cell::Cell;
use std::rc::Rc;

pub struct C16;

type It = Box<dyn Iterator<Item = i128>>;

#[derive(Clone, Debug)]
enum Src {
    Arr(Vec<i128>),
    Range(i128, i128),
    Count(i128, i128),
    Succ(i128, i128),
    SuccUntil(i128, i128),
}

#[derive(Clone, Debug)]
enum Stage {
    Map,
    Filter,
    Take(usize),
    Skip(usize),
    TakeWhile(i128),
    SkipUntil(i128),
    ZipArr(Vec<i128>),
    ZipCount,
    AddArr(Vec<i128>),
    AddCount,
    PrependArr(Vec<i128>),
    Agg(i128),
    Agg1,
    Enumerate(i128, i128),
    Windows(usize),
    Chunks(usize),
    Group,
    Distinct,
    WithCount,
    RepeatN(usize),
    Repeat,
    Flatten,
    ProductArr(Vec<i128>),
}

#[derive(Clone, Debug)]
enum Cons {
    ToArray,
    TakeToArray(usize),
    Get(usize),
    Nth(usize),
    First,
    Last,
    Len,
    Reduce,
    Sum,
    Join,
    Count,
}

const LIMIT: usize = 50_000;

struct ModelCtx {
    /// elements that flowed out of any stage (budget against non-productive infinite loops)
    ticks: Rc<Cell<usize>>,
    pulls: Rc<Cell<usize>>,
    diverged: Rc<Cell<bool>>,
    /// with_count starts counting at 0 or 1 (both readings of the book are accepted)
    wc_base: i128,
}

fn lit(v: i128) -> String {
    if v < 0 {
        format!("({v})")
    } else {
        v.to_string()
    }
}

fn arr_src(v: &[i128]) -> String {
    if v.is_empty() {
        "take([0], 0)".into()
    } else {
        format!("[{}]", v.iter().map(|x| lit(*x)).collect::<Vec<_>>().join(", "))
    }
}

fn src_iter(s: &Src, cx: &ModelCtx) -> It {
    let pulls = cx.pulls.clone();
    let div = cx.diverged.clone();
    let base: It = match s.clone() {
        Src::Arr(v) => Box::new(v.into_iter()),
        Src::Range(a, b) => Box::new(a..b),
        Src::Count(a, st) => Box::new((0..).map(move |i: i128| a + st * i)),
        Src::Succ(a, st) => Box::new((0..).map(move |i: i128| a + st * i)),
        Src::SuccUntil(a, k) => Box::new((a..).take_while(move |x| *x == a || *x - 1 < k)),
    };
    Box::new(base.map_while(move |x| {
        if pulls.get() >= LIMIT {
            div.set(true);
            return None;
        }
        pulls.set(pulls.get() + 1);
        Some(x)
    }))
}

fn src_text(s: &Src, logged: bool) -> String {
    let base = match s {
        Src::Arr(v) => format!("{}.to_generator()", arr_src(v)),
        Src::Range(a, b) => format!("range({}, {}).to_generator()", lit(*a), lit(*b)),
        Src::Count(a, st) => {
            if *a == 0 && *st == 1 {
                "count().to_generator()".to_string()
            } else {
                format!("count({}, {}).to_generator()", lit(*a), lit(*st))
            }
        }
        Src::Succ(a, st) => format!("successors({}, (x: int) -> {{ x + {} }})", lit(*a), lit(*st)),
        Src::SuccUntil(a, k) => format!(
            "successors_until({}, (x: int) -> {{ (x < {}).then(x + 1) }})",
            lit(*a),
            lit(*k)
        ),
    };
    if logged {
        // the evaluation log: every source element pulled is written out
        format!("{base}.map((x: int) -> {{ display(x) }})")
    } else {
        base
    }
}

fn src_infinite(s: &Src) -> bool {
    matches!(s, Src::Count(..) | Src::Succ(..))
}

fn apply(st: &Stage, it: It, cx: &ModelCtx, upstream: Rc<dyn Fn() -> It>) -> It {
    match st.clone() {
        Stage::Map => Box::new(it.map(|x| x * 2 + 1)),
        Stage::Filter => Box::new(it.filter(|x| x.rem_euclid(3) != 0)),
        Stage::Take(n) => Box::new(it.take(n)),
        Stage::Skip(n) => Box::new(it.skip(n)),
        Stage::TakeWhile(k) => Box::new(it.take_while(move |x| *x < k)),
        Stage::SkipUntil(k) => Box::new(it.skip_while(move |x| *x < k)),
        Stage::ZipArr(v) => Box::new(it.zip(v).map(|(a, b)| a * 1000 + b)),
        Stage::ZipCount => Box::new(it.zip(0i128..).map(|(a, b)| a * 1000 + b)),
        Stage::AddArr(v) => Box::new(it.chain(v)),
        Stage::AddCount => Box::new(it.chain(0i128..)),
        Stage::PrependArr(v) => Box::new(v.into_iter().chain(it)),
        Stage::Agg(init) => Box::new(std::iter::once(init).chain(it.scan(init, |acc, x| {
            *acc += x;
            Some(*acc)
        }))),
        Stage::Agg1 => {
            let mut acc: Option<i128> = None;
            Box::new(it.map(move |x| {
                let v = match acc {
                    None => x,
                    Some(a) => a + x,
                };
                acc = Some(v);
                v
            }))
        }
        Stage::Enumerate(a, s) => Box::new(it.enumerate().map(move |(i, x)| (a + s * i as i128) * 1000 + x)),
        Stage::Windows(w) => {
            let mut buf: std::collections::VecDeque<i128> = Default::default();
            Box::new(it.filter_map(move |x| {
                buf.push_back(x);
                if buf.len() == w {
                    let s: i128 = buf.iter().sum();
                    buf.pop_front();
                    Some(s)
                } else {
                    None
                }
            }))
        }
        Stage::Chunks(c) => {
            let mut it = it;
            Box::new(std::iter::from_fn(move || {
                let chunk: Vec<i128> = it.by_ref().take(c).collect();
                if chunk.is_empty() {
                    None
                } else {
                    Some(chunk.iter().sum::<i128>() * 10 + chunk.len() as i128)
                }
            }))
        }
        Stage::Group => {
            let mut it = it.peekable();
            Box::new(std::iter::from_fn(move || {
                let first = it.next()?;
                let mut g = vec![first];
                while let Some(n) = it.peek() {
                    if n.rem_euclid(3) == first.rem_euclid(3) {
                        g.push(it.next().unwrap());
                    } else {
                        break;
                    }
                }
                Some(g.iter().sum::<i128>() * 10 + g.len() as i128)
            }))
        }
        Stage::Distinct => {
            let mut seen = std::collections::HashSet::new();
            Box::new(it.filter(move |x| seen.insert(*x)))
        }
        Stage::WithCount => {
            let base = cx.wc_base;
            let mut seen: std::collections::HashMap<i128, i128> = Default::default();
            Box::new(it.map(move |x| {
                let c = seen.entry(x).or_insert(0);
                let r = x * 1000 + *c + base;
                *c += 1;
                r
            }))
        }
        Stage::RepeatN(n) => {
            let _ = it;
            let mut parts: Vec<It> = vec![];
            for _ in 0..n {
                parts.push(upstream());
            }
            Box::new(parts.into_iter().flatten())
        }
        Stage::Repeat => {
            let _ = it;
            // every cycle re-evaluates the upstream (so the pull count is the lazy one)
            if upstream().next().is_none() {
                Box::new(std::iter::empty())
            } else {
                let div = cx.diverged.clone();
                let ticks = cx.ticks.clone();
                Box::new(
                    std::iter::repeat_with(move || upstream())
                        .map_while(move |it| {
                            // a cycle costs a tick even when it yields nothing
                            ticks.set(ticks.get() + 1);
                            if div.get() || ticks.get() > 4 * LIMIT {
                                div.set(true);
                                None
                            } else {
                                Some(it)
                            }
                        })
                        .flatten(),
                )
            }
        }
        Stage::Flatten => Box::new(it.flat_map(|x| vec![x, x + 1])),
        Stage::ProductArr(v) => Box::new(it.flat_map(move |x| {
            let v = v.clone();
            v.into_iter().map(move |y| x * 1000 + y)
        })),
    }
}

fn stage_text(st: &Stage) -> String {
    let pair = "(p: (int, int)) -> { p::item0 * 1000 + p::item1 }";
    match st {
        Stage::Map => ".map((x: int) -> { x * 2 + 1 })".into(),
        Stage::Filter => ".filter((x: int) -> { x % 3 != 0 })".into(),
        Stage::Take(n) => format!(".take({n})"),
        Stage::Skip(n) => format!(".skip({n})"),
        Stage::TakeWhile(k) => format!(".take_while((x: int) -> {{ x < {} }})", lit(*k)),
        Stage::SkipUntil(k) => format!(".skip_until((x: int) -> {{ x >= {} }})", lit(*k)),
        Stage::ZipArr(v) => format!(".zip({}.to_generator()).map({pair})", arr_src(v)),
        Stage::ZipCount => format!(".zip(count().to_generator()).map({pair})"),
        Stage::AddArr(v) => format!(".add({}.to_generator())", arr_src(v)),
        Stage::AddCount => ".add(count().to_generator())".into(),
        Stage::PrependArr(_) => unreachable!(),
        Stage::Agg(i) => format!(".aggregate({}, (a: int, x: int) -> {{ a + x }})", lit(*i)),
        Stage::Agg1 => ".aggregate((a: int, x: int) -> { a + x })".into(),
        Stage::Enumerate(a, s) => {
            if *a == 0 && *s == 1 {
                format!(".enumerate().map({pair})")
            } else if *s == 1 {
                format!(".enumerate({}).map({pair})", lit(*a))
            } else {
                format!(".enumerate({}, {}).map({pair})", lit(*a), lit(*s))
            }
        }
        Stage::Windows(w) => format!(".windows({w}).map((s: Sequence<int>) -> {{ sum(s) }})"),
        Stage::Chunks(c) => format!(".chunks({c}).map((s: Sequence<int>) -> {{ sum(s) * 10 + len(s) }})"),
        Stage::Group => {
            ".group((a: int, b: int) -> { a % 3 == b % 3 }).map((s: Sequence<int>) -> { sum(s) * 10 + len(s) })".into()
        }
        Stage::Distinct => ".distinct()".into(),
        Stage::WithCount => format!(".with_count().map({pair})"),
        Stage::RepeatN(n) => format!(".repeat({n})"),
        Stage::Repeat => ".repeat()".into(),
        Stage::Flatten => ".map((x: int) -> { [x, x + 1].to_generator() }).flatten()".into(),
        Stage::ProductArr(v) => format!(".product({}.to_generator()).map({pair})", arr_src(v)),
    }
}

fn render(src: &Src, stages: &[Stage], logged: bool) -> String {
    let mut s = src_text(src, logged);
    for st in stages {
        if let Stage::PrependArr(v) = st {
            s = format!("{}.to_generator().add({s})", arr_src(v));
        } else {
            s.push_str(&stage_text(st));
        }
    }
    s
}

fn model_iter(src: &Src, stages: &[Stage], cx: &ModelCtx) -> It {
    let mut it = src_iter(src, cx);
    for (i, st) in stages.iter().enumerate() {
        let (s2, st2) = (src.clone(), stages[..i].to_vec());
        let cx2 = ModelCtx {
            ticks: cx.ticks.clone(),
            pulls: cx.pulls.clone(),
            diverged: cx.diverged.clone(),
            wc_base: cx.wc_base,
        };
        let up: Rc<dyn Fn() -> It> = Rc::new(move || model_iter(&s2, &st2, &cx2));
        it = apply(st, it, cx, up);
        let (ticks, div) = (cx.ticks.clone(), cx.diverged.clone());
        it = Box::new(it.map_while(move |x| {
            ticks.set(ticks.get() + 1);
            if ticks.get() > 4 * LIMIT || div.get() {
                div.set(true);
                None
            } else {
                Some(x)
            }
        }));
    }
    it
}

struct Pipe {
    src: Src,
    stages: Vec<Stage>,
    cons: Cons,
    maybe_inf: bool,
    has_wc: bool,
    lookahead: usize,
}

fn gen_pipe(t: &mut Tape, force_inf: bool, no_inf_flatten: bool, redirected: &mut u32) -> Pipe {
    let small = |t: &mut Tape| t.range(-4, 9) as i128;
    let arr = |t: &mut Tape, max: usize| -> Vec<i128> { (0..t.below(max + 1)).map(|_| t.range(-4, 9) as i128).collect() };
    let src = if force_inf {
        match t.below(3) {
            0 => Src::Count(0, 1),
            1 => Src::Count(small(t), t.range(1, 3) as i128),
            _ => Src::Succ(small(t), t.range(1, 3) as i128),
        }
    } else {
        match t.below(7) {
            0 | 1 => Src::Arr(arr(t, 8)),
            2 => {
                let a = small(t);
                Src::Range(a, a + t.range(0, 9) as i128)
            }
            3 => Src::Count(0, 1),
            4 => Src::Count(small(t), t.range(1, 3) as i128),
            5 => Src::Succ(small(t), t.range(1, 3) as i128),
            _ => {
                let a = small(t);
                Src::SuccUntil(a, a + t.range(0, 6) as i128)
            }
        }
    };
    let mut maybe_inf = src_infinite(&src);
    let mut stages = vec![];
    let mut has_wc = false;
    let mut lookahead = 2usize;
    let n = 1 + t.below(7);
    if !force_inf && t.below(10) == 0 {
        // a stream that turns out EMPTY, repeated without bound (yields nothing), optionally mapped /
        // skipped, then chained: the result is exactly the other operand of the chain
        match t.below(3) {
            0 => stages.push(Stage::Take(0)),
            1 => stages.push(Stage::TakeWhile(-100)),
            _ => {
                stages.push(Stage::Take(t.below(4)));
                stages.push(Stage::Skip(4));
            }
        }
        stages.push(Stage::Repeat);
        match t.below(3) {
            0 => stages.push(Stage::Map),
            1 => stages.push(Stage::Skip(t.below(3))),
            _ => {}
        }
        maybe_inf = false;
        stages.push(match t.below(3) {
            0 => Stage::AddArr(arr(t, 4)),
            1 => {
                maybe_inf = true;
                Stage::AddCount
            }
            _ => Stage::PrependArr(arr(t, 4)),
        });
        lookahead += 8;
    }
    for _ in 0..n {
        let st = match t.below(23) {
            0 | 1 => Stage::Map,
            2 => Stage::Filter,
            3 | 4 => {
                maybe_inf = false;
                Stage::Take(t.below(9))
            }
            5 | 6 => Stage::Skip(t.below(5)),
            7 => Stage::TakeWhile(small(t) + 4),
            8 => Stage::SkipUntil(small(t)),
            9 => {
                maybe_inf = false;
                Stage::ZipArr(arr(t, 6))
            }
            10 => Stage::ZipCount,
            11 => Stage::AddArr(arr(t, 4)),
            12 => {
                maybe_inf = true;
                Stage::AddCount
            }
            13 => Stage::PrependArr(arr(t, 4)),
            14 => Stage::Agg(small(t)),
            15 => Stage::Agg1,
            16 => Stage::Enumerate(small(t), t.range(1, 3) as i128),
            17 => {
                let w = 1 + t.below(4);
                lookahead += w;
                Stage::Windows(w)
            }
            18 => {
                let c = 1 + t.below(4);
                lookahead += c;
                Stage::Chunks(c)
            }
            19 => Stage::Group,
            20 => {
                if has_wc {
                    Stage::Map
                } else {
                    has_wc = true;
                    if t.bool() {
                        Stage::WithCount
                    } else {
                        // distinct is built on with_count; its result does not depend on the base
                        has_wc = false;
                        Stage::Distinct
                    }
                }
            }
            21 => {
                if maybe_inf && no_inf_flatten {
                    // listed finding: flatten over an unbounded stream is eager
                    *redirected += 1;
                    Stage::Map
                } else if maybe_inf || t.below(3) == 0 {
                    Stage::Flatten
                } else if t.bool() {
                    Stage::RepeatN(t.below(4))
                } else {
                    // infinite repetition: only of a stream known to be non-empty
                    stages.push(Stage::PrependArr(vec![small(t)]));
                    maybe_inf = true;
                    Stage::Repeat
                }
            }
            _ => Stage::ProductArr(arr(t, 3)),
        };
        lookahead += 2;
        stages.push(st);
    }
    let cons = if maybe_inf {
        match t.below(5) {
            0 | 1 => Cons::TakeToArray(t.below(8)),
            2 => Cons::Get(t.below(9)),
            3 => Cons::Nth(t.below(3)),
            _ => Cons::First,
        }
    } else {
        match t.below(12) {
            0 | 1 => Cons::ToArray,
            2 => Cons::TakeToArray(t.below(8)),
            3 => Cons::Get(t.below(9)),
            4 => Cons::Nth(t.below(3)),
            5 => Cons::First,
            6 => Cons::Last,
            7 => Cons::Len,
            8 => Cons::Reduce,
            9 => Cons::Sum,
            10 => Cons::Join,
            _ => Cons::Count,
        }
    };
    Pipe {
        src,
        stages,
        cons,
        maybe_inf,
        has_wc,
        lookahead,
    }
}

const SENT: i128 = -999;

/// (consumer source applied to variable `g`, declared type, model result as dump)
fn consume(c: &Cons, mut it: It) -> (String, &'static str, Value) {
    let int = |v: i128| d_int(&v.into());
    match c {
        Cons::ToArray => (
            "g.to_array()".into(),
            "Sequence<int>",
            d_seq(it.map(int).collect()),
        ),
        Cons::TakeToArray(k) => (
            format!("g.take({k}).to_array()"),
            "Sequence<int>",
            d_seq(it.take(*k).map(int).collect()),
        ),
        Cons::Get(i) => (
            format!("if_error(g.get({i}), {SENT})"),
            "int",
            int(it.nth(*i).unwrap_or(SENT)),
        ),
        Cons::Nth(n) => (
            format!("or(g.nth({n}, (x: int) -> {{ x % 2 == 0 }}), -998)"),
            "int",
            int(it.filter(|x| x.rem_euclid(2) == 0).nth(*n).unwrap_or(-998)),
        ),
        Cons::First => (
            "or(g.first((x: int) -> { x > 3 }), -998)".into(),
            "int",
            int(it.find(|x| *x > 3).unwrap_or(-998)),
        ),
        Cons::Last => (
            format!("if_error(g.last(), {SENT})"),
            "int",
            int(it.last().unwrap_or(SENT)),
        ),
        Cons::Len => ("g.len()".into(), "int", int(it.count() as i128)),
        Cons::Reduce => (
            "g.reduce(7, (a: int, x: int) -> { (a * 3 + x) % 1000003 })".into(),
            "int",
            int(it.fold(7i128, |a, x| (a * 3 + x).rem_euclid(1000003))),
        ),
        Cons::Sum => ("g.sum()".into(), "int", int(it.sum())),
        Cons::Join => (
            "g.map((x: int) -> { to_str(x) }).join(\",\")".into(),
            "str",
            d_str(&it.map(|x| x.to_string()).collect::<Vec<_>>().join(",")),
        ),
        Cons::Count => (
            "g.count((x: int) -> { x > 0 })".into(),
            "int",
            int(it.filter(|x| *x > 0).count() as i128),
        ),
    }
}

struct Built {
    body: String,
    ret: String,
    expect: Expect,
    /// source pulls the ideal lazy evaluation needs for ONE consumption
    model_pulls: usize,
    diverged: bool,
    overflow: bool,
}

fn build(p: &Pipe, logged: bool) -> Built {
    let mut alts = vec![];
    let mut pulls = 0;
    let mut diverged = false;
    let mut ty = "int";
    let mut csrc = String::new();
    let bases: &[i128] = if p.has_wc { &[0, 1] } else { &[1] };
    let mut overflow = false;
    for b in bases {
        let cx = ModelCtx {
            ticks: Rc::new(Cell::new(0)),
            pulls: Rc::new(Cell::new(0)),
            diverged: Rc::new(Cell::new(false)),
            wc_base: *b,
        };
        let it = model_iter(&p.src, &p.stages, &cx);
        // guard the model against runaway magnitudes (repeated aggregation): give up beyond 2^100
        let guarded: It = Box::new(it.map(|x| x));
        let (c, t, d) = consume(&p.cons, guarded);
        if d.to_string().len() > 20_000 {
            overflow = true;
        }
        csrc = c;
        ty = t;
        pulls = cx.pulls.get();
        diverged |= cx.diverged.get();
        alts.push(d_tuple(vec![d.clone(), d]));
    }
    let expect = if alts.len() == 1 {
        Expect::Dump { dump: alts.pop().unwrap() }
    } else {
        Expect::OneOf {
            alts: alts.into_iter().map(|d| Expect::Dump { dump: d }).collect(),
        }
    };
    // the same generator value is consumed twice
    let body = format!(
        "let g = {};\n  let r1 = {csrc};\n  let r2 = {csrc};\n  (r1, r2)",
        render(&p.src, &p.stages, logged)
    );
    Built {
        body,
        ret: format!("({ty}, {ty})"),
        expect,
        model_pulls: pulls,
        diverged,
        overflow,
    }
}

fn limits() -> Limits {
    Limits {
        search: Some(60_000),
        depth: Some(300),
        ..Limits::default()
    }
}

fn classes_of(p: &Pipe) -> Vec<String> {
    let mut v: Vec<String> = p
        .stages
        .iter()
        .map(|s| format!("stage:{}", format!("{s:?}").split('(').next().unwrap_or("")))
        .collect();
    v.push(format!("cons:{}", format!("{:?}", p.cons).split('(').next().unwrap_or("")));
    v.push(if src_infinite(&p.src) { "src:infinite".into() } else { "src:finite".into() });
    v
}

fn nontrivial(p: &Pipe) -> bool {
    let slices = p
        .stages
        .windows(2)
        .any(|w| matches!(w[0], Stage::Take(_) | Stage::Skip(_)) && matches!(w[1], Stage::Take(_) | Stage::Skip(_)));
    let chain = p
        .stages
        .iter()
        .any(|s| matches!(s, Stage::AddArr(_) | Stage::AddCount | Stage::PrependArr(_)));
    p.stages.len() >= 2 && (src_infinite(&p.src) || slices || chain)
}

impl Property for C16 {
    fn id(&self) -> &'static str {
        "C16"
    }
    fn rule(&self) -> String {
        "pipes: a generator pipeline of 1-8 stages (map, filter, take, skip, take_while, skip_until, zip, add/chain in either order, aggregate (2 forms), enumerate, windows, chunks, group, distinct, with_count, repeat(n), repeat, flatten, product) over array / range / count / successors / successors_until sources, bound to ONE generator value that is consumed twice by the same consumer (to_array, take(k).to_array, get, nth, first, last, len, reduce, sum, join, count); both results must equal the list semantics computed by a lazy iterator model. lazy: the same over infinite sources with a display() stage right after the source; the number of source elements written to the output per consumption must be within model_pulls + 2 per stage + window/chunk sizes, Non-trivial = at least 2 stages and (infinite source, or slice after slice, or a chain). Distinct by function body.".into()
    }
    fn assumptions(&self) -> Vec<String> {
        vec![
            "with_count may start counting at 0 (book) or 1 (what distinct relies on): both accepted".into(),
            "pipelines whose model needs more than 50000 source elements are discarded (counted as inconclusive)".into(),
            "a search limit of 60000 turns an over-eager adaptor into a violation instead of a hang".into(),
        ]
    }
    fn families(&self, tier: Tier) -> Vec<Family> {
        let k = if tier == Tier::Quick { 1 } else { 25 };
        vec![
            Family {
                name: "pipes",
                batches: 700 * k,
                batch_size: 20,
                tape_len: 100,
            },
            Family {
                name: "lazy",
                batches: 1800 * k,
                batch_size: 1,
                tape_len: 100,
            },
        ]
    }
    fn run_batch(&self, family: &str, subs: &[Vec<u8>], ctx: &mut Ctx) -> Result<Vec<CaseOutcome>, HarnessError> {
        if family == "pipes" {
            let mut cases = vec![];
            let mut skipped: Vec<CaseOutcome> = vec![];
            for s in subs {
                let mut t = Tape::new(s);
                let mut redirected = 0;
                let p = gen_pipe(&mut t, false, ctx.excluded("flatten_unbounded"), &mut redirected);
                let b = build(&p, false);
                let mut c = ValCase::new(&b.ret, b.body, b.expect);
                c.limits = limits();
                c.nontrivial = nontrivial(&p);
                c.describe = format!("{:?} | {:?} | {:?}", p.src, p.stages, p.cons);
                c.classes = classes_of(&p);
                c.excluded = redirected;
                if b.diverged || b.overflow {
                    // the model cannot decide this one (it needs an unbounded prefix): whether
                    // such a pipeline terminates under limits is C10's question, not run here
                    skipped.push(CaseOutcome {
                        key: fnv(c.body.as_bytes()),
                        inconclusive: true,
                        classes: vec!["model_diverged".into()],
                        evals: 1,
                        ..Default::default()
                    });
                    continue;
                }
                let st = c.classes.join(",");
                c = c.key("stages", st);
                cases.push(c);
            }
            if cases.is_empty() {
                return Ok(skipped);
            }
            let mut outs = run_val_batch_cfg(
                cases,
                ctx,
                &BatchCfg {
                    mismatch_kind: "value_mismatch",
                    cpu_s: 10,
                    timeouts_inconclusive: true,
                    panics_inconclusive: false,
                },
            )?;
            outs.extend(skipped);
            return Ok(outs);
        }
        // lazy: single jobs, the output is the evaluation log
        let mut outs = vec![];
        for s in subs {
            let mut t = Tape::new(s);
            let mut redirected = 0;
            let p = gen_pipe(&mut t, true, ctx.excluded("flatten_unbounded"), &mut redirected);
            let b = build(&p, true);
            let key = fnv(b.body.as_bytes());
            let mut o = CaseOutcome {
                key,
                nontrivial: nontrivial(&p),
                classes: classes_of(&p),
                evals: 1,
                excluded: redirected,
                ..Default::default()
            };
            if b.diverged || b.overflow {
                o.inconclusive = true;
                o.nontrivial = false;
                outs.push(o);
                continue;
            }
            let src = format!("fn c0() -> {} {{\n  {}\n}}\n", b.ret, b.body);
            let mut job = Job::new(src).run("c0");
            job.limits = limits();
            job.cpu_s = 10;
            let reply = ctx.exec(&job)?;
            let direct = make_direct(&job, &[(2, b.expect.clone())]);
            let keys = |f: Failure| f.key("stages", o.classes.join(",")).key("body", b.body.clone());
            if let Some(f) = end_failure(&reply) {
                if f.kind == "timeout" || f.kind == "memory" {
                    o.inconclusive = true;
                } else {
                    o.failures.push(keys(f.direct(direct.clone())));
                }
                outs.push(o);
                continue;
            }
            let out = reply.step(2).clone();
            let log: Vec<&str> = reply.output.lines().collect();
            o.sample = Some(json!({"body": b.body, "observed": brief(&out), "log_lines": log.len(), "model_pulls": b.model_pulls}));
            if !satisfied(&b.expect, &out) {
                let kind = if out.is_panic() { "panic" } else { "value_mismatch" };
                o.failures.push(keys(
                    Failure::new(
                        kind,
                        format!(
                            "{:?} | {:?} | {:?}\n  body: {}\n  expected: {}\n  observed: {}",
                            p.src,
                            p.stages,
                            p.cons,
                            b.body,
                            serde_json::to_string(&b.expect).unwrap_or_default(),
                            brief(&out)
                        ),
                    )
                    .direct(direct.clone()),
                ));
            } else {
                // laziness: two consumptions, each within the bound; same log both times
                let allowed = b.model_pulls + p.lookahead;
                let total = log.len();
                if total > 2 * allowed {
                    o.failures.push(keys(
                        Failure::new(
                            "over_evaluation",
                            format!(
                                "{:?} | {:?} | {:?}\n  body: {}\n  the two consumptions pulled {} source elements; the lazy model needs {} each (allowed {} each)",
                                p.src, p.stages, p.cons, b.body, total, b.model_pulls, allowed
                            ),
                        )
                        .direct(json!({"form": "c16_lazy", "job": job, "allowed_total": 2 * allowed})),
                    ));
                }
            }
            let _ = p.maybe_inf;
            outs.push(o);
        }
        Ok(outs)
    }

    fn check_direct(&self, direct: &Value, ctx: &mut Ctx) -> Result<Option<Failure>, HarnessError> {
        match direct["form"].as_str() {
            Some("c16_lazy") | Some("c16_same_log") => {
                let job: Job = serde_json::from_value(direct["job"].clone())
                    .map_err(|e| HarnessError(format!("bad direct job: {e}")))?;
                let reply = ctx.exec(&job)?;
                if let Some(f) = end_failure(&reply) {
                    return Ok(Some(f.direct(direct.clone())));
                }
                let log: Vec<&str> = reply.output.lines().collect();
                if direct["form"] == "c16_lazy" {
                    let allowed = direct["allowed_total"].as_u64().unwrap_or(0) as usize;
                    if log.len() > allowed {
                        return Ok(Some(
                            Failure::new("over_evaluation", format!("{} source elements pulled, allowed {}", log.len(), allowed))
                                .direct(direct.clone()),
                        ));
                    }
                } else {
                    let half = log.len() / 2;
                    if log.len() % 2 != 0 || log[..half] != log[half..] {
                        return Ok(Some(
                            Failure::new("not_reiterable", format!("logs differ: {log:?}")).direct(direct.clone()),
                        ));
                    }
                }
                Ok(None)
            }
            _ => crate::direct::check_generic(direct, ctx),
        }
    }
}
