//! C18 — strings are code-point sequences; literals mean what they say.
use super::common::*;
use crate::dump::*;
use crate::expect::Expect;
use crate::pool::HarnessError;
use crate::runner::*;
use crate::tape::Tape;
use serde_json::Value;

pub struct C18;

const ALPHABET: &[char] = &[
    'a', 'b', 'a', 'b', 'c', 'A', 'Z', ' ', '\t', '\n', 'é', 'ß', 'İ', 'ǆ', '∑', '中', '😀', '\u{301}', '\u{a0}',
    '0', '1', '_', 'x', '"', '\'', '\\', '{', '}', '#',
];

fn gen_chars(t: &mut Tape, max: usize) -> Vec<char> {
    let n = t.below(max + 1);
    // a small sub-alphabet makes repeated and overlapping matches likely
    let k = 1 + t.below(4);
    let sub: Vec<char> = (0..k).map(|_| *t.pick(ALPHABET)).collect();
    let narrow = t.bool();
    (0..n)
        .map(|_| if narrow { *t.pick(&sub) } else { *t.pick(ALPHABET) })
        .collect()
}

fn s_of(c: &[char]) -> String {
    c.iter().collect()
}

fn src(c: &[char]) -> String {
    str_src(&s_of(c))
}

fn find_from(h: &[char], n: &[char], start: usize) -> Option<usize> {
    if n.is_empty() || start > h.len() {
        return None;
    }
    (start..h.len() + 1).find(|&i| i + n.len() <= h.len() && h[i..i + n.len()] == *n)
}

fn rfind_all(h: &[char], n: &[char]) -> Option<usize> {
    if n.is_empty() {
        return None;
    }
    (0..h.len() + 1).rev().find(|&i| i + n.len() <= h.len() && h[i..i + n.len()] == *n)
}

fn split_all(h: &[char], sep: &[char]) -> Vec<Vec<char>> {
    let mut out = vec![];
    let mut start = 0;
    while let Some(i) = find_from(h, sep, start) {
        out.push(h[start..i].to_vec());
        start = i + sep.len();
    }
    out.push(h[start..].to_vec());
    out
}

/// split with at most `k` cuts, from the left
fn split_cuts(h: &[char], sep: &[char], k: usize) -> Vec<Vec<char>> {
    let mut out = vec![];
    let mut start = 0;
    while out.len() < k {
        let Some(i) = find_from(h, sep, start) else { break };
        out.push(h[start..i].to_vec());
        start = i + sep.len();
    }
    out.push(h[start..].to_vec());
    out
}

/// split with at most `k` cuts, from the right
fn rsplit_cuts(h: &[char], sep: &[char], k: usize) -> Vec<Vec<char>> {
    let mut out: Vec<Vec<char>> = vec![];
    let mut end = h.len();
    while out.len() < k {
        let Some(i) = rfind_all(&h[..end], sep) else { break };
        out.push(h[i + sep.len()..end].to_vec());
        end = i;
    }
    out.push(h[..end].to_vec());
    out.reverse();
    out
}

fn d_strs(v: &[Vec<char>]) -> Value {
    d_seq(v.iter().map(|c| d_str(&s_of(c))).collect())
}

fn lower(c: &[char]) -> Vec<char> {
    c.iter().flat_map(|ch| ch.to_lowercase()).collect()
}
fn upper(c: &[char]) -> Vec<char> {
    c.iter().flat_map(|ch| ch.to_uppercase()).collect()
}

const OPS: &[&str] = &[
    "len", "get", "substring3", "substring2", "substring_opt", "find", "find_start", "rfind", "rfind_end",
    "contains", "contains_start", "starts_with", "ends_with", "split", "split_n", "rsplit_n", "partition",
    "rpartition", "strip", "lstrip", "rstrip", "strip_pred", "lstrip_pred", "rstrip_pred", "replace",
    "replace_n", "remove_prefix", "remove_suffix", "reverse", "chars", "mul", "add", "join", "join_sep",
    "lower", "upper", "is_lower", "is_upper", "is_whitespace", "cmp", "eq", "code_point", "chr", "hash_eq",
    "to_str", "index_sugar", "compose", "compose", "compose",
];

fn edge_index(t: &mut Tape, len: usize) -> i64 {
    let l = len as i64;
    *t.pick(&[0, 1, l - 1, l, l + 1, -1, -l, -l - 1, 2, l / 2, l + 5, -2])
}

fn gen_op_case(t: &mut Tape) -> ValCase {
    let op = *t.pick(OPS);
    let s = gen_chars(t, 12);
    let len = s.len();
    // needle: usually a slice of s so that it occurs
    let needle: Vec<char> = if !s.is_empty() && t.below(4) != 0 {
        let a = t.below(len);
        let b = (a + 1 + t.below(3)).min(len);
        s[a..b].to_vec()
    } else {
        gen_chars(t, 3)
    };
    let err = Expect::Error { msg: None };
    let val = |d: Value| Expect::Dump { dump: d };
    let either = |d: Value| Expect::DumpOrError { dump: d };
    let mut underspecified = false;
    let ss = src(&s);
    let ns = src(&needle);
    let (ret, body, expect): (&str, String, Expect) = match op {
        "len" => ("int", format!("len({ss})"), val(d_i64(len as i64))),
        "get" | "index_sugar" => {
            let i = edge_index(t, len);
            let idx = if i < 0 { i + len as i64 } else { i };
            let e = if idx >= 0 && (idx as usize) < len {
                val(d_str(&s[idx as usize].to_string()))
            } else {
                err.clone()
            };
            let b = if op == "get" {
                format!("get({ss}, {})", int_lit(i))
            } else {
                format!("{ss}[{}]", int_lit(i))
            };
            ("str", b, e)
        }
        "substring3" | "substring_opt" | "substring2" => {
            let a = edge_index(t, len);
            let b = edge_index(t, len);
            let (body, end): (String, Option<i64>) = match op {
                "substring3" => (format!("substring({ss}, {}, {})", int_lit(a), int_lit(b)), Some(b)),
                "substring_opt" => (format!("substring({ss}, {}, some({}))", int_lit(a), int_lit(b)), Some(b)),
                _ => (format!("substring({ss}, {})", int_lit(a)), None),
            };
            let e = match end {
                _ if a < 0 => {
                    underspecified = true;
                    Expect::ValueOrError
                }
                Some(b) if b < 0 => {
                    // a negative end is not documented
                    underspecified = true;
                    Expect::ValueOrError
                }
                Some(b) if (b as usize) <= len && a <= b => val(d_str(&s_of(&s[a as usize..b as usize]))),
                None if (a as usize) <= len => val(d_str(&s_of(&s[a as usize..]))),
                _ => {
                    // out of range: an error, or the clamped slice the library itself relies on
                    underspecified = true;
                    let aa = (a as usize).min(len);
                    let bb = end.map_or(len, |b| (b as usize).min(len)).max(aa);
                    either(d_str(&s_of(&s[aa..bb])))
                }
            };
            ("str", body, e)
        }
        "find" | "contains" => {
            let e = if needle.is_empty() {
                underspecified = true;
                Expect::ValueOrError
            } else if op == "find" {
                val(d_opt(find_from(&s, &needle, 0).map(|i| d_i64(i as i64))))
            } else {
                val(d_bool(find_from(&s, &needle, 0).is_some()))
            };
            if op == "find" {
                ("Optional<int>", format!("find({ss}, {ns})"), e)
            } else {
                ("bool", format!("contains({ss}, {ns})"), e)
            }
        }
        "find_start" | "contains_start" => {
            let st = edge_index(t, len);
            let e = if needle.is_empty() || st < 0 || st as usize > len {
                underspecified = true;
                Expect::ValueOrError
            } else if op == "find_start" {
                val(d_opt(find_from(&s, &needle, st as usize).map(|i| d_i64(i as i64))))
            } else {
                val(d_bool(find_from(&s, &needle, st as usize).is_some()))
            };
            if op == "find_start" {
                ("Optional<int>", format!("find({ss}, {ns}, {})", int_lit(st)), e)
            } else {
                ("bool", format!("contains({ss}, {ns}, {})", int_lit(st)), e)
            }
        }
        "rfind" => {
            let e = if needle.is_empty() {
                underspecified = true;
                Expect::ValueOrError
            } else {
                val(d_opt(rfind_all(&s, &needle).map(|i| d_i64(i as i64))))
            };
            ("Optional<int>", format!("rfind({ss}, {ns})"), e)
        }
        "rfind_end" => {
            // the meaning of the third argument is not pinned down by the book ("the search
            // will begin at that index"): the match ends at or before it, or starts at or
            // before it
            let st = edge_index(t, len);
            underspecified = true;
            let e = if needle.is_empty() || st < 0 || st as usize > len {
                Expect::ValueOrError
            } else {
                let a = rfind_all(&s[..st as usize], &needle);
                let b = (0..=(st as usize).min(len))
                    .rev()
                    .find(|&i| i + needle.len() <= len && s[i..i + needle.len()] == *needle);
                Expect::OneOf {
                    alts: vec![
                        val(d_opt(a.map(|i| d_i64(i as i64)))),
                        val(d_opt(b.map(|i| d_i64(i as i64)))),
                    ],
                }
            };
            ("Optional<int>", format!("rfind({ss}, {ns}, {})", int_lit(st)), e)
        }
        "starts_with" => (
            "bool",
            format!("starts_with({ss}, {ns})"),
            val(d_bool(s.starts_with(&needle))),
        ),
        "ends_with" => (
            "bool",
            format!("ends_with({ss}, {ns})"),
            val(d_bool(s.ends_with(&needle))),
        ),
        "split" => {
            let e = if needle.is_empty() {
                underspecified = true;
                Expect::NoPanic
            } else {
                val(d_strs(&split_all(&s, &needle)))
            };
            ("Sequence<str>", format!("split({ss}, {ns}).to_array()"), e)
        }
        "split_n" | "rsplit_n" => {
            let k = t.range(0, 4) as usize;
            let e = if needle.is_empty() {
                underspecified = true;
                Expect::NoPanic
            } else {
                // "at most n strings" (book) vs n cuts (behaviour of the shipped scripts):
                // both readings are accepted
                underspecified = true;
                let f = if op == "split_n" { split_cuts } else { rsplit_cuts };
                let mut alts = vec![val(d_strs(&f(&s, &needle, k)))];
                if k >= 1 {
                    alts.push(val(d_strs(&f(&s, &needle, k - 1))));
                }
                Expect::OneOf { alts }
            };
            let b = if op == "split_n" {
                format!("split({ss}, {ns}, {k}).to_array()")
            } else {
                format!("rsplit({ss}, {ns}, {k})")
            };
            ("Sequence<str>", b, e)
        }
        "partition" | "rpartition" => {
            let e = if needle.is_empty() {
                underspecified = true;
                Expect::NoPanic
            } else {
                let pos = if op == "partition" {
                    find_from(&s, &needle, 0)
                } else {
                    rfind_all(&s, &needle)
                };
                val(match pos {
                    Some(i) => d_tuple(vec![d_str(&s_of(&s[..i])), d_str(&s_of(&s[i + needle.len()..]))]),
                    None if op == "partition" => d_tuple(vec![d_str(&s_of(&s)), d_str("")]),
                    None => d_tuple(vec![d_str(""), d_str(&s_of(&s))]),
                })
            };
            ("(str, str)", format!("{op}({ss}, {ns})"), e)
        }
        "strip" | "lstrip" | "rstrip" | "strip_pred" | "lstrip_pred" | "rstrip_pred" => {
            let pred_char = needle.first().copied().unwrap_or('a');
            let with_pred = op.ends_with("_pred");
            let test = |c: char| if with_pred { c == pred_char } else { c.is_whitespace() };
            let mut a = 0;
            let mut b = len;
            let base = op.trim_end_matches("_pred");
            if base != "rstrip" {
                while a < b && test(s[a]) {
                    a += 1;
                }
            }
            if base != "lstrip" {
                while b > a && test(s[b - 1]) {
                    b -= 1;
                }
            }
            let body = if with_pred {
                format!("{base}({ss}, (c: str) -> {{ c == {} }})", src(&[pred_char]))
            } else {
                format!("{base}({ss})")
            };
            ("str", body, val(d_str(&s_of(&s[a..b]))))
        }
        "replace" | "replace_n" => {
            let new = gen_chars(t, 3);
            let k = t.range(0, 4) as usize;
            let e = if needle.is_empty() {
                underspecified = true;
                Expect::NoPanic
            } else {
                let parts = if op == "replace" {
                    split_all(&s, &needle)
                } else {
                    split_cuts(&s, &needle, k)
                };
                let mut out: Vec<char> = vec![];
                for (i, p) in parts.iter().enumerate() {
                    if i > 0 {
                        out.extend(&new);
                    }
                    out.extend(p);
                }
                val(d_str(&s_of(&out)))
            };
            let b = if op == "replace" {
                format!("replace({ss}, {ns}, {})", src(&new))
            } else {
                format!("replace({ss}, {ns}, {}, {k})", src(&new))
            };
            ("str", b, e)
        }
        "remove_prefix" => {
            let r = if s.starts_with(&needle) { s[needle.len()..].to_vec() } else { s.clone() };
            ("str", format!("remove_prefix({ss}, {ns})"), val(d_str(&s_of(&r))))
        }
        "remove_suffix" => {
            let r = if s.ends_with(&needle) { s[..len - needle.len()].to_vec() } else { s.clone() };
            ("str", format!("remove_suffix({ss}, {ns})"), val(d_str(&s_of(&r))))
        }
        "reverse" => {
            let r: Vec<char> = s.iter().rev().copied().collect();
            ("str", format!("reverse({ss})"), val(d_str(&s_of(&r))))
        }
        "chars" => (
            "Sequence<str>",
            format!("chars({ss})"),
            val(d_seq(s.iter().map(|c| d_str(&c.to_string())).collect())),
        ),
        "mul" => {
            let k = t.range(-1, 4);
            let e = if k < 0 {
                underspecified = true;
                Expect::ValueOrError
            } else {
                val(d_str(&s_of(&s).repeat(k as usize)))
            };
            let b = if t.bool() {
                format!("({ss}) * {}", int_lit(k))
            } else {
                format!("mul({ss}, {})", int_lit(k))
            };
            ("str", b, e)
        }
        "add" => {
            let mut r = s.clone();
            r.extend(&needle);
            ("str", format!("({ss}) + {ns}"), val(d_str(&s_of(&r))))
        }
        "join" | "join_sep" => {
            let parts: Vec<Vec<char>> = (0..t.below(4)).map(|_| gen_chars(t, 3)).collect();
            let sep = if op == "join" { vec![] } else { needle.clone() };
            let mut out: Vec<char> = vec![];
            for (i, p) in parts.iter().enumerate() {
                if i > 0 {
                    out.extend(&sep);
                }
                out.extend(p);
            }
            let arr = if parts.is_empty() {
                "take([\"\"], 0)".to_string()
            } else {
                format!("[{}]", parts.iter().map(|p| src(p)).collect::<Vec<_>>().join(", "))
            };
            let gen = if t.bool() { ".to_generator()" } else { "" };
            let b = if op == "join" {
                format!("join({arr}{gen})")
            } else {
                format!("join({arr}{gen}, {ns})")
            };
            ("str", b, val(d_str(&s_of(&out))))
        }
        "lower" => ("str", format!("lower({ss})"), val(d_str(&s_of(&lower(&s))))),
        "upper" => ("str", format!("upper({ss})"), val(d_str(&s_of(&upper(&s))))),
        "is_lower" => (
            "bool",
            format!("is_lower({ss})"),
            val(d_bool(s.iter().all(|c| c.is_lowercase()))),
        ),
        "is_upper" => (
            "bool",
            format!("is_upper({ss})"),
            val(d_bool(s.iter().all(|c| c.is_uppercase()))),
        ),
        "is_whitespace" => (
            "bool",
            format!("is_whitespace({ss})"),
            val(d_bool(s.iter().all(|c| c.is_whitespace()))),
        ),
        "cmp" | "eq" => {
            let o = if t.below(4) == 0 { s.clone() } else { needle.clone() };
            let c = s.cmp(&o);
            if op == "cmp" {
                (
                    "int",
                    format!("cmp({ss}, {})", src(&o)),
                    val(d_i64(match c {
                        std::cmp::Ordering::Less => -1,
                        std::cmp::Ordering::Equal => 0,
                        _ => 1,
                    })),
                )
            } else {
                (
                    "bool",
                    format!("({ss}) == {}", src(&o)),
                    val(d_bool(c == std::cmp::Ordering::Equal)),
                )
            }
        }
        "code_point" => {
            let e = if len == 1 { val(d_i64(s[0] as i64)) } else { err.clone() };
            ("int", format!("code_point({ss})"), e)
        }
        "chr" => {
            let c = match t.below(4) {
                0 => t.range(0, 0x7f),
                1 => *t.pick(&[0xd7ff, 0xd800, 0xdfff, 0xe000, 0x10ffff, 0x110000, -1, 0xffff, 0x10000]),
                _ => t.range(0, 0x11_0000),
            };
            let e = match u32::try_from(c).ok().and_then(char::from_u32) {
                Some(ch) => val(d_str(&ch.to_string())),
                None => err.clone(),
            };
            ("str", format!("chr({})", int_lit(c)), e)
        }
        "hash_eq" => {
            // equal strings built differently hash equally, within range
            let a = t.below(len + 1);
            let b = format!(
                "let x = {ss};\n  let y = {} + {};\n  let h = hash(x);\n  (h == hash(y), h >= 0 && h < 18446744073709551616, x == y)",
                src(&s[..a]),
                src(&s[a..])
            );
            (
                "(bool, bool, bool)",
                b,
                val(d_tuple(vec![d_bool(true), d_bool(true), d_bool(true)])),
            )
        }
        "to_str" => ("str", format!("to_str({ss})"), val(d_str(&s_of(&s)))),
        "compose" => {
            // a probe applied to the result of a transformation: representation details of
            // derived strings (character tables, ASCII fast paths) must not show
            let (tsrc, tv): (String, Vec<char>) = match t.below(7) {
                0 => (format!("lower({ss})"), lower(&s)),
                1 => (format!("upper({ss})"), upper(&s)),
                2 => {
                    let mut r = s.clone();
                    r.extend(&needle);
                    (format!("(({ss}) + {ns})"), r)
                }
                3 => {
                    let mut r = needle.clone();
                    r.extend(&s);
                    (format!("({ns} + ({ss}))"), r)
                }
                4 => (format!("mul({ss}, 2)"), [s.clone(), s.clone()].concat()),
                5 => (format!("reverse({ss})"), s.iter().rev().copied().collect()),
                _ => (
                    format!("substring({ss}, {})", len / 2),
                    s[len / 2..].to_vec(),
                ),
            };
            let tl = tv.len();
            match t.below(5) {
                0 => ("int", format!("len({tsrc})"), val(d_i64(tl as i64))),
                1 => {
                    let i = edge_index(t, tl);
                    let idx = if i < 0 { i + tl as i64 } else { i };
                    let e = if idx >= 0 && (idx as usize) < tl {
                        val(d_str(&tv[idx as usize].to_string()))
                    } else {
                        err.clone()
                    };
                    ("str", format!("get({tsrc}, {})", int_lit(i)), e)
                }
                2 => {
                    let a = t.below(tl + 1);
                    let b = a + t.below(tl - a + 1);
                    (
                        "str",
                        format!("substring({tsrc}, {a}, {b})"),
                        val(d_str(&s_of(&tv[a..b]))),
                    )
                }
                3 => (
                    "Sequence<str>",
                    format!("chars({tsrc})"),
                    val(d_seq(tv.iter().map(|c| d_str(&c.to_string())).collect())),
                ),
                _ => {
                    let e = if needle.is_empty() {
                        underspecified = true;
                        Expect::ValueOrError
                    } else {
                        val(d_opt(find_from(&tv, &needle, 0).map(|i| d_i64(i as i64))))
                    };
                    ("Optional<int>", format!("find({tsrc}, {ns})"), e)
                }
            }
        }
        _ => unreachable!(),
    };
    let mut c = ValCase::new(ret, body, expect);
    let non_ascii_before = s.iter().any(|c| !c.is_ascii());
    c.nontrivial = non_ascii_before && !underspecified;
    c.underspecified = underspecified;
    c.describe = format!("{op} on {:?}", s_of(&s));
    c = c
        .key("op", op)
        .key("ascii", if non_ascii_before { "no" } else { "yes" })
        .class(format!("op:{op}"))
        .class(if non_ascii_before { "non_ascii" } else { "ascii" });
    c
}

fn int_lit(i: i64) -> String {
    if i < 0 {
        format!("({i})")
    } else {
        i.to_string()
    }
}

// ------------------------------------------------------------------ literals

/// spell `text` inside quotes of kind `q`, escaping what must be escaped and, at random,
/// what may be escaped
fn escaped(text: &[char], q: char, t: &mut Tape, brace_escape: bool) -> String {
    let mut out = String::new();
    for &c in text {
        match c {
            '\\' => out.push_str("\\\\"),
            '\n' if t.bool() => out.push_str("\\n"),
            '\t' if t.bool() => out.push_str("\\t"),
            '\r' => out.push_str("\\r"),
            '\0' => out.push_str("\\0"),
            '{' if brace_escape => out.push_str("{{"),
            '}' if brace_escape => out.push_str("}}"),
            c if c == q => {
                out.push('\\');
                out.push(c);
            }
            '"' | '\'' if t.chance(60) => {
                out.push('\\');
                out.push(c);
            }
            // (not inside formatted strings, where braces delimit expressions)
            c if !brace_escape && t.chance(30) => out.push_str(&format!("\\u{{{:x}}}", c as u32)),
            c => out.push(c),
        }
    }
    out
}

fn gen_literal_case(t: &mut Tape) -> ValCase {
    let mut text = gen_chars(t, 10);
    if t.chance(60) {
        text.push(*t.pick(&['\0', '\r', '\u{7f}', '\u{10ffff}', '\u{e000}']));
    }
    let q = if t.bool() { '"' } else { '\'' };
    let form = t.below(6);
    let fences = t.below(3);
    let hashes = "#".repeat(fences);
    let closer: String = format!("{q}{hashes}");
    let (lit, kind): (String, &str) = match form {
        0 | 1 => (format!("{q}{}{q}", escaped(&text, q, t, false)), "plain"),
        2 => {
            // fenced: the quote needs no escape unless followed by the fence
            let mut body = String::new();
            for &c in &text {
                match c {
                    '\\' => body.push_str("\\\\"),
                    c if c == q && fences == 0 => {
                        body.push('\\');
                        body.push(c)
                    }
                    c => body.push(c),
                }
            }
            if fences > 0 && (body.contains(&closer) || body.ends_with(q)) {
                // would terminate early: fall back to escaping the quote
                body = escaped(&text, q, t, false);
            }
            (format!("{hashes}{q}{body}{q}{hashes}"), "fenced")
        }
        3 => {
            // raw: no escapes at all; only texts that can be written that way
            let raw: String = text.iter().collect();
            if raw.contains(&closer) || raw.ends_with(q) || (fences == 0 && raw.contains(q)) {
                (format!("{q}{}{q}", escaped(&text, q, t, false)), "plain")
            } else {
                (format!("r{hashes}{q}{raw}{q}{hashes}"), "raw")
            }
        }
        4 => (format!("f{q}{}{q}", escaped(&text, q, t, true)), "formatted"),
        _ => {
            // formatted with embedded expressions: equals the join of the parts
            let a = gen_chars(t, 4);
            let b = gen_chars(t, 4);
            let n = t.range(-50, 5000);
            let x = gen_chars(t, 3);
            let body = format!(
                "let n = {};\n  let x = {};\n  f{q}{}{{n}}{}{{x}}{{n:05}}{q} == join([{}, to_str(n), {}, to_str(x), format(n, \"05\")])",
                int_lit(n),
                src(&x),
                escaped(&a, q, t, true),
                escaped(&b, q, t, true),
                src(&a),
                src(&b),
            );
            let mut c = ValCase::new("bool", body, Expect::Dump { dump: d_bool(true) });
            c.nontrivial = true;
            c.describe = "formatted string equals the join of its parts".into();
            return c
                .key("op", "literal")
                .key("form", "fstring_expr")
                .key("quote", q.to_string())
                .class("literal:fstring_expr");
        }
    };
    let mut c = ValCase::new("str", lit.clone(), Expect::Dump { dump: d_str(&s_of(&text)) });
    c.nontrivial = lit.contains('\\') || fences > 0 || kind != "plain";
    c.describe = format!("{kind} literal for {:?}", s_of(&text));
    c.key("op", "literal")
        .key("form", kind)
        .key("quote", q.to_string())
        .key("escaped_quote", if lit.contains("\\'") { "single" } else if lit.contains("\\\"") { "double" } else { "none" })
        .class(format!("literal:{kind}"))
}

impl Property for C18 {
    fn id(&self) -> &'static str {
        "C18"
    }
    fn rule(&self) -> String {
        "ops: (string, operation, arguments) with strings of 0-12 characters over an alphabet mixing ASCII, 2/3/4-byte characters, combining marks, case-expanding characters, several kinds of whitespace, quotes, backslashes, braces; needles mostly slices of the subject (overlapping, multi-byte); indices from {0,1,len-1,len,len+1,-1,-len,-len-1,...}; compared with a model on Vec<char>. literals: a target text spelled as quoted / #-fenced / raw / formatted literal with mandatory and optional escapes (\\n \\t \\r \\0 \\\\ \\\" \\' \\u{..}), {{ }} and embedded expressions with format specs; the exported string must equal the text. Non-trivial = the subject contains a non-ASCII character (ops) or the literal needs an escape, a fence or a prefix. Distinct by function body.".into()
    }
    fn assumptions(&self) -> Vec<String> {
        vec![
            "case mapping and the White_Space/Lowercase/Uppercase properties are taken from Rust's char tables (per character; final-sigma context is not generated)".into(),
            "points the book leaves open are accepted both ways and counted as underspecified: substring out of range (error or clamped), negative start/end, empty needle, split/rsplit count (n strings or n cuts), rfind's third argument".into(),
        ]
    }
    fn families(&self, tier: Tier) -> Vec<Family> {
        let k = if tier == Tier::Quick { 1 } else { 25 };
        vec![
            Family {
                name: "ops",
                batches: 1200 * k,
                batch_size: 50,
                tape_len: 90,
            },
            Family {
                name: "literals",
                batches: 360 * k,
                batch_size: 50,
                tape_len: 90,
            },
        ]
    }
    fn run_batch(&self, family: &str, subs: &[Vec<u8>], ctx: &mut Ctx) -> Result<Vec<CaseOutcome>, HarnessError> {
        let cases: Vec<ValCase> = subs
            .iter()
            .map(|s| {
                let mut t = Tape::new(s);
                if family == "literals" {
                    gen_literal_case(&mut t)
                } else {
                    gen_op_case(&mut t)
                }
            })
            .collect();
        run_val_batch(cases, ctx, "value_mismatch")
    }
}
