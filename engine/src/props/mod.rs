use crate::runner::Property;

pub mod c01;
pub mod c02;
pub mod c03;
pub mod c04;
pub mod c05;
pub mod c06;
pub mod c07;
pub mod c08;
pub mod c09;
pub mod c10;
pub mod c11;
pub mod c12;
pub mod c13;
pub mod c14;
pub mod c15;
pub mod c16;
pub mod c17;
pub mod c18;
pub mod c19;
pub mod c20;
pub mod common;

pub fn by_id(id: &str) -> Option<Box<dyn Property>> {
    Some(match id {
        "C01" => Box::new(c01::C01),
        "C02" => Box::new(c02::C02),
        "C03" => Box::new(c03::C03),
        "C04" => Box::new(c04::C04),
        "C05" => Box::new(c05::C05),
        "C06" => Box::new(c06::C06),
        "C07" => Box::new(c07::C07),
        "C08" => Box::new(c08::C08),
        "C09" => Box::new(c09::C09),
        "C10" => Box::new(c10::C10),
        "C11" => Box::new(c11::C11),
        "C12" => Box::new(c12::C12),
        "C13" => Box::new(c13::C13),
        "C14" => Box::new(c14::C14),
        "C15" => Box::new(c15::C15),
        "C16" => Box::new(c16::C16),
        "C17" => Box::new(c17::C17),
        "C18" => Box::new(c18::C18),
        "C19" => Box::new(c19::C19),
        "C20" => Box::new(c20::C20),
        _ => return None,
    })
}
