use crate::runner::Property;

pub mod c14;
pub mod common;

pub fn by_id(id: &str) -> Option<Box<dyn Property>> {
    Some(match id {
        "C14" => Box::new(c14::C14),
        _ => return None,
    })
}
