//! R-eval: an independent reference evaluator for the core language, with a typed program
//! generator and a printer that chooses among the equivalent surface forms (operator /
//! function call / method call, index sugar, minimal or full parenthesisation).
//!
//! Semantics implemented here are taken from the book: strict left-to-right argument
//! evaluation, errors are values that propagate through calls (leftmost wins), the documented
//! short-circuit functions evaluate only the selected argument, lexical scoping with closures,
//! default values computed once when the function is created.
use crate::tape::Tape;
use num_bigint::BigInt;
use num_integer::Integer;
use num_traits::{One, Signed, ToPrimitive, Zero};
use serde_json::{json, Value};
use std::cell::RefCell;
use std::rc::Rc;

#[derive(Clone, Debug, PartialEq)]
pub enum T {
    Int,
    Bool,
    Str,
    Seq(Box<T>),
    Opt(Box<T>),
    Tup(Vec<T>),
    Struct(usize),
    Union(usize),
    Fn(Vec<T>, Box<T>),
}

impl T {
    pub fn src(&self, p: &Prog) -> String {
        match self {
            T::Int => "int".into(),
            T::Bool => "bool".into(),
            T::Str => "str".into(),
            T::Seq(x) => format!("Sequence<{}>", x.src(p)),
            T::Opt(x) => format!("Optional<{}>", x.src(p)),
            T::Tup(xs) => format!("({})", xs.iter().map(|x| x.src(p)).collect::<Vec<_>>().join(", ")),
            T::Struct(i) => p.structs[*i].0.clone(),
            T::Union(i) => p.unions[*i].0.clone(),
            T::Fn(ps, r) => format!("({})->({})", ps.iter().map(|x| x.src(p)).collect::<Vec<_>>().join(", "), r.src(p)),
        }
    }
}

#[derive(Clone, Copy, Debug, PartialEq)]
pub enum Style {
    Operator,
    Call,
    Method,
}

#[derive(Clone, Debug)]
pub enum E {
    Int(BigInt),
    Bool(bool),
    Str(String),
    Var(String),
    /// binary builtin with operator sugar: name is the function name (add, sub, ...)
    Bin(&'static str, Box<E>, Box<E>, Style),
    /// a user overload of an operator name applied to struct operands (prints like Bin)
    UserOp(&'static str, Box<E>, Box<E>, Style),
    /// unary builtin with operator sugar (neg, not)
    Un(&'static str, Box<E>, Style),
    /// call of a named function (builtin without operator sugar, or user function)
    Call(String, Vec<E>, bool /* method style */),
    /// call of a function value
    CallV(Box<E>, Vec<E>),
    Arr(Vec<E>),
    Tup(Vec<E>),
    Item(Box<E>, usize),
    New(usize, Vec<E>),
    Field(Box<E>, usize),
    Variant(usize, usize, Box<E>),
    VOpt(Box<E>, usize),
    VGet(Box<E>, usize),
    Lambda(Vec<(String, T, Option<Box<E>>)>, Box<Body>),
    /// get(a, i) with index sugar
    Index(Box<E>, Box<E>, Style),
    /// none() with its static type pinned: cast<Optional<T>>(none())
    NoneOf(T),
    /// user overloads of `get` (index sugar) and `neg` (unary minus) for a struct operand
    UserIndex(Box<E>, Box<E>, Style),
    UserNeg(Box<E>, Style),
}

#[derive(Clone, Debug)]
pub struct Body {
    pub decls: Vec<Decl>,
    pub ret: E,
}

#[derive(Clone, Debug)]
pub enum Decl {
    Let(String, E),
    Fn(FnDecl),
}

#[derive(Clone, Debug)]
pub struct FnDecl {
    pub name: String,
    pub params: Vec<(String, T, Option<Box<E>>)>,
    pub ret: T,
    pub body: Body,
}

#[derive(Clone, Debug, Default)]
pub struct Prog {
    /// (name, field types); fields are named f0, f1, ...
    pub structs: Vec<(String, Vec<T>)>,
    /// (name, variant types); variants are named v0, v1, ...
    pub unions: Vec<(String, Vec<T>)>,
    pub decls: Vec<Decl>,
}

// ------------------------------------------------------------------------------------------
// printer
// ------------------------------------------------------------------------------------------

fn op_of(name: &str) -> Option<(&'static str, u8, bool)> {
    // (symbol, level, right associative); higher level binds tighter
    Some(match name {
        "and" => ("&&", 1, false),
        "or" => ("||", 1, false),
        "lt" => ("<", 2, false),
        "gt" => (">", 2, false),
        "le" => ("<=", 2, false),
        "ge" => (">=", 2, false),
        "eq" => ("==", 2, false),
        "ne" => ("!=", 2, false),
        "bit_or" => ("|", 3, false),
        "bit_and" => ("&", 3, false),
        "bit_xor" => ("^", 3, false),
        "add" => ("+", 4, false),
        "sub" => ("-", 4, false),
        "mul" => ("*", 5, false),
        "mod" => ("%", 5, false),
        "pow" => ("**", 6, true),
        _ => return None,
    })
}

pub struct Printer<'a> {
    pub prog: &'a Prog,
    /// parenthesise every operator application
    pub full_parens: bool,
}

/// syntactic class of a printed expression: 0 = binary operator (with level), 7 = unary prefix,
/// 8 = postfix / atom
struct Printed {
    s: String,
    level: u8,
    op: &'static str,
}

impl<'a> Printer<'a> {
    fn atom(s: String) -> Printed {
        Printed { s, level: 8, op: "" }
    }

    fn postfix_operand(&self, e: &E) -> String {
        let p = self.expr(e);
        // integer literals too: `5.add(3)` would lex like a float
        if p.level < 8 || matches!(e, E::Int(_) | E::Lambda(..)) {
            format!("({})", p.s)
        } else {
            p.s
        }
    }

    fn args(&self, xs: &[E]) -> String {
        xs.iter().map(|x| self.expr(x).s).collect::<Vec<_>>().join(", ")
    }

    fn expr(&self, e: &E) -> Printed {
        match e {
            E::Int(i) => {
                if i.is_negative() {
                    Self::atom(format!("({i})"))
                } else {
                    Self::atom(i.to_string())
                }
            }
            E::Bool(b) => Self::atom(b.to_string()),
            E::Str(s) => Self::atom(format!("\"{s}\"")),
            E::Var(n) => Self::atom(n.clone()),
            E::Bin(name, a, b, style) | E::UserOp(name, a, b, style) => match style {
                Style::Call => Self::atom(format!("{name}({}, {})", self.expr(a).s, self.expr(b).s)),
                Style::Method => Self::atom(format!("{}.{name}({})", self.postfix_operand(a), self.expr(b).s)),
                Style::Operator => {
                    let (sym, level, right) = op_of(name).unwrap();
                    let wrap = |child: &E, is_right: bool| -> String {
                        let p = self.expr(child);
                        let need = if self.full_parens {
                            p.level < 8
                        } else if p.level == 7 {
                            // a unary prefix under `**`: its reading is not documented
                            level == 6
                        } else if p.level > level {
                            false
                        } else if p.level < level {
                            true
                        } else {
                            // same level: the conventional groups (+ -), (* %) associate to the left and
                            // `**` to the right; mixing different operators of the other groups is not
                            // documented, so it is never left to the parser
                            let same_op = p.op == sym;
                            match level {
                                4 | 5 => is_right,
                                6 => !is_right,
                                _ => !same_op || is_right,
                            }
                        };
                        if need {
                            format!("({})", p.s)
                        } else {
                            p.s
                        }
                    };
                    let _ = right;
                    Printed { s: format!("{} {sym} {}", wrap(a, false), wrap(b, true)), level, op: sym }
                }
            },
            E::UserNeg(a, style) => return self.expr(&E::Un("neg", a.clone(), *style)),
            E::UserIndex(a, i, style) => return self.expr(&E::Index(a.clone(), i.clone(), *style)),
            E::Un(name, a, style) => match style {
                Style::Call => Self::atom(format!("{name}({})", self.expr(a).s)),
                Style::Method => Self::atom(format!("{}.{name}()", self.postfix_operand(a))),
                Style::Operator => {
                    let sym = if *name == "neg" { "-" } else { "!" };
                    let p = self.expr(a);
                    let inner = if p.level < 8 || self.full_parens && p.level < 8 { format!("({})", p.s) } else { p.s };
                    Printed { s: format!("{sym}{inner}"), level: 7, op: sym }
                }
            },
            E::Call(name, xs, method) => {
                if *method && !xs.is_empty() {
                    Self::atom(format!("{}.{name}({})", self.postfix_operand(&xs[0]), self.args(&xs[1..])))
                } else {
                    Self::atom(format!("{name}({})", self.args(xs)))
                }
            }
            E::CallV(f, xs) => Self::atom(format!("{}({})", self.postfix_operand(f), self.args(xs))),
            E::Arr(xs) => Self::atom(format!("[{}]", self.args(xs))),
            E::Tup(xs) => Self::atom(match xs.len() {
                1 => format!("({},)", self.expr(&xs[0]).s),
                _ => format!("({})", self.args(xs)),
            }),
            E::Item(a, i) => Self::atom(format!("{}::item{i}", self.postfix_operand(a))),
            E::New(s, xs) => Self::atom(format!("{}({})", self.prog.structs[*s].0, self.args(xs))),
            E::Field(a, i) => Self::atom(format!("{}::f{i}", self.postfix_operand(a))),
            E::Variant(u, v, a) => Self::atom(format!("{}::v{v}({})", self.prog.unions[*u].0, self.expr(a).s)),
            E::VOpt(a, v) => Self::atom(format!("{}?:v{v}", self.postfix_operand(a))),
            E::VGet(a, v) => Self::atom(format!("{}!:v{v}", self.postfix_operand(a))),
            E::Lambda(ps, body) => {
                let mut p = Printed { s: format!("({}) -> {{ {} }}", self.params(ps), self.body(body, "")), level: 0, op: "" };
                p.level = 0;
                p
            }
            E::NoneOf(t) => Self::atom(format!("cast<Optional<{}>>(none())", t.src(self.prog))),
            E::Index(a, i, style) => match style {
                Style::Operator => Self::atom(format!("{}[{}]", self.postfix_operand(a), self.expr(i).s)),
                Style::Call => Self::atom(format!("get({}, {})", self.expr(a).s, self.expr(i).s)),
                Style::Method => Self::atom(format!("{}.get({})", self.postfix_operand(a), self.expr(i).s)),
            },
        }
    }

    fn params(&self, ps: &[(String, T, Option<Box<E>>)]) -> String {
        ps.iter()
            .map(|(n, t, d)| match d {
                Some(d) => format!("{n}: {} ?= {}", t.src(self.prog), self.expr(d).s),
                None => format!("{n}: {}", t.src(self.prog)),
            })
            .collect::<Vec<_>>()
            .join(", ")
    }

    fn body(&self, b: &Body, indent: &str) -> String {
        let mut s = String::new();
        for d in &b.decls {
            s.push_str(&self.decl(d, indent));
            s.push(' ');
        }
        s.push_str(&self.expr(&b.ret).s);
        s
    }

    fn decl(&self, d: &Decl, indent: &str) -> String {
        match d {
            Decl::Let(n, e) => format!("{indent}let {n} = {};", self.expr(e).s),
            Decl::Fn(f) => format!("{indent}fn {}({}) -> {} {{ {} }}", f.name, self.params(&f.params), f.ret.src(self.prog), self.body(&f.body, "")),
        }
    }

    pub fn program(&self) -> String {
        let mut s = String::new();
        for (n, fs) in &self.prog.structs {
            let f: Vec<String> = fs.iter().enumerate().map(|(i, t)| format!("f{i}: {}", t.src(self.prog))).collect();
            s.push_str(&format!("struct {n}({})\n", f.join(", ")));
        }
        for (n, vs) in &self.prog.unions {
            let f: Vec<String> = vs.iter().enumerate().map(|(i, t)| format!("v{i}: {}", t.src(self.prog))).collect();
            s.push_str(&format!("union {n}({})\n", f.join(", ")));
        }
        for d in &self.prog.decls {
            s.push_str(&self.decl(d, ""));
            s.push('\n');
        }
        s
    }
}

// ------------------------------------------------------------------------------------------
// evaluator
// ------------------------------------------------------------------------------------------

#[derive(Clone, Debug)]
pub enum V {
    Int(BigInt),
    Bool(bool),
    Str(String),
    Seq(Rc<Vec<V>>),
    Opt(Option<Box<V>>),
    Tup(Vec<V>),
    Struct(usize, Vec<V>),
    Union(usize, usize, Box<V>),
    Fn(Rc<Closure>),
    Err(String),
}

pub struct Closure {
    params: Vec<(String, Option<V>)>,
    body: Body,
    env: RefCell<Option<Rc<Env>>>,
}

impl std::fmt::Debug for Closure {
    fn fmt(&self, f: &mut std::fmt::Formatter<'_>) -> std::fmt::Result {
        write!(f, "<fn/{}>", self.params.len())
    }
}

pub struct Env {
    name: String,
    val: V,
    parent: Option<Rc<Env>>,
}

fn lookup(env: &Option<Rc<Env>>, name: &str) -> Option<V> {
    let mut e = env.as_ref();
    while let Some(n) = e {
        if n.name == name {
            return Some(n.val.clone());
        }
        e = n.parent.as_ref();
    }
    None
}

fn bind(env: &Option<Rc<Env>>, name: &str, val: V) -> Option<Rc<Env>> {
    Some(Rc::new(Env { name: name.to_string(), val, parent: env.clone() }))
}

pub struct Machine {
    /// output lines; the flag marks lines printed while evaluating the arguments that follow an
    /// error argument of a builtin call / literal / constructor (the interpreter skips those
    /// arguments: known finding KF-C02-01)
    pub out: Vec<(String, bool)>,
    optional_depth: u32,
    /// lines printed by the arguments of a call whose callee expression evaluated to an error value
    /// (whether those arguments are evaluated is not documented): indices into `out`
    pub undocumented: Vec<usize>,
    undocumented_depth: u32,
    pub fuel: u64,
    pub depth: u32,
    pub exhausted: bool,
}

impl V {
    fn is_err(&self) -> bool {
        matches!(self, V::Err(_))
    }

    /// canonical dump in the format of the interpreter hook (errors: {"err": ...})
    pub fn dump(&self) -> Value {
        match self {
            V::Int(i) => json!({"i": i.to_string()}),
            V::Bool(b) => json!({ "b": b }),
            V::Str(s) => json!({ "s": s }),
            V::Seq(xs) => json!({"seq": xs.iter().map(|x| x.dump()).collect::<Vec<_>>()}),
            V::Opt(None) => json!({ "opt": null }),
            V::Opt(Some(x)) => json!({"opt": [x.dump()]}),
            V::Tup(xs) | V::Struct(_, xs) => json!({"st": xs.iter().map(|x| x.dump()).collect::<Vec<_>>()}),
            V::Union(_, v, x) => json!({"un": [v, x.dump()]}),
            V::Fn(_) => crate::dump::d_any(),
            V::Err(_) => crate::dump::d_err_any(),
        }
    }
}

fn veq(a: &V, b: &V) -> bool {
    match (a, b) {
        (V::Int(x), V::Int(y)) => x == y,
        (V::Bool(x), V::Bool(y)) => x == y,
        (V::Str(x), V::Str(y)) => x == y,
        (V::Seq(x), V::Seq(y)) => x.len() == y.len() && x.iter().zip(y.iter()).all(|(p, q)| veq(p, q)),
        (V::Tup(x), V::Tup(y)) => x.len() == y.len() && x.iter().zip(y.iter()).all(|(p, q)| veq(p, q)),
        (V::Opt(x), V::Opt(y)) => match (x, y) {
            (None, None) => true,
            (Some(p), Some(q)) => veq(p, q),
            _ => false,
        },
        _ => false,
    }
}

impl Machine {
    pub fn new() -> Self {
        Machine { out: vec![], optional_depth: 0, undocumented: vec![], undocumented_depth: 0, fuel: 200_000, depth: 0, exhausted: false }
    }

    /// evaluate the arguments of an eager callee; Err(v) = the error the call results in
    fn eager(&mut self, xs: &[E], env: &Option<Rc<Env>>, prog: &Prog, native: bool) -> Result<Vec<V>, V> {
        let mut vals = Vec::with_capacity(xs.len());
        let mut first_err: Option<V> = None;
        for x in xs.iter() {
            let after_error = first_err.is_some() && native;
            if after_error {
                self.optional_depth += 1;
            }
            let v = self.eval(x, env, prog);
            if after_error {
                self.optional_depth -= 1;
            }
            if v.is_err() && first_err.is_none() {
                first_err = Some(v.clone());
            }
            vals.push(v);
        }
        match first_err {
            Some(e) => Err(e),
            None => Ok(vals),
        }
    }

    pub fn call(&mut self, f: &Rc<Closure>, args: Vec<V>, prog: &Prog) -> V {
        if self.depth > 150 {
            self.exhausted = true;
            return V::Err("model depth".into());
        }
        let mut env = f.env.borrow().clone();
        for (i, (name, default)) in f.params.iter().enumerate() {
            let v = match args.get(i) {
                Some(v) => v.clone(),
                None => default.clone().unwrap_or(V::Err("missing argument".into())),
            };
            env = bind(&env, name, v);
        }
        self.depth += 1;
        let r = self.body(&f.body, env, prog);
        self.depth -= 1;
        r
    }

    fn body(&mut self, b: &Body, mut env: Option<Rc<Env>>, prog: &Prog) -> V {
        for d in &b.decls {
            env = self.decl(d, env, prog);
        }
        self.eval(&b.ret, &env, prog)
    }

    pub fn decl(&mut self, d: &Decl, env: Option<Rc<Env>>, prog: &Prog) -> Option<Rc<Env>> {
        match d {
            Decl::Let(n, e) => {
                let v = self.eval(e, &env, prog);
                bind(&env, n, v)
            }
            Decl::Fn(f) => {
                let c = self.closure(&f.params, &f.body, &env, prog);
                let node = Rc::new(Env { name: f.name.clone(), val: V::Fn(c.clone()), parent: env });
                // the function sees itself (recursion)
                *c.env.borrow_mut() = Some(node.clone());
                Some(node)
            }
        }
    }

    fn closure(&mut self, params: &[(String, T, Option<Box<E>>)], body: &Body, env: &Option<Rc<Env>>, prog: &Prog) -> Rc<Closure> {
        // default values are computed once, when the function is created, in the defining scope
        let ps = params
            .iter()
            .map(|(n, _, d)| (n.clone(), d.as_ref().map(|d| self.eval(d, env, prog))))
            .collect();
        Rc::new(Closure { params: ps, body: body.clone(), env: RefCell::new(env.clone()) })
    }

    fn user_fn(&self, env: &Option<Rc<Env>>, name: &str) -> Option<Rc<Closure>> {
        match lookup(env, name) {
            Some(V::Fn(c)) => Some(c),
            _ => None,
        }
    }

    pub fn eval(&mut self, e: &E, env: &Option<Rc<Env>>, prog: &Prog) -> V {
        if self.fuel == 0 {
            self.exhausted = true;
            return V::Err("model fuel".into());
        }
        self.fuel -= 1;
        match e {
            E::Int(i) => V::Int(i.clone()),
            E::Bool(b) => V::Bool(*b),
            E::Str(s) => V::Str(s.clone()),
            E::Var(n) => lookup(env, n).unwrap_or_else(|| V::Err(format!("model: unbound {n}"))),
            E::Bin(name, a, b, _) => self.named(name, &[(**a).clone(), (**b).clone()], env, prog, false),
            E::UserOp(name, a, b, _) => self.named(name, &[(**a).clone(), (**b).clone()], env, prog, true),
            E::Un(name, a, _) => self.named(name, &[(**a).clone()], env, prog, false),
            E::Index(a, i, _) => self.named("get", &[(**a).clone(), (**i).clone()], env, prog, false),
            E::Call(name, xs, _) => self.named(name, xs, env, prog, true),
            E::CallV(f, xs) => {
                let fv = self.eval(f, env, prog);
                // the callee expression is evaluated first, then the arguments (all of them)
                if fv.is_err() {
                    self.undocumented_depth += 1;
                }
                let args = self.eager(xs, env, prog, false);
                if fv.is_err() {
                    self.undocumented_depth -= 1;
                }
                match (fv, args) {
                    (V::Err(m), _) => V::Err(m),
                    (_, Err(e)) => e,
                    (V::Fn(c), Ok(vals)) => self.call(&c, vals, prog),
                    _ => V::Err("model: not a function".into()),
                }
            }
            E::Arr(xs) => match self.eager(xs, env, prog, true) {
                Ok(v) => V::Seq(Rc::new(v)),
                Err(e) => e,
            },
            E::Tup(xs) => match self.eager(xs, env, prog, true) {
                Ok(v) => V::Tup(v),
                Err(e) => e,
            },
            E::New(s, xs) => match self.eager(xs, env, prog, true) {
                Ok(v) => V::Struct(*s, v),
                Err(e) => e,
            },
            E::Item(a, i) | E::Field(a, i) => match self.eval(a, env, prog) {
                V::Tup(xs) | V::Struct(_, xs) => xs[*i].clone(),
                V::Err(m) => V::Err(m),
                _ => V::Err("model: member of non-compound".into()),
            },
            E::Variant(u, v, a) => match self.eval(a, env, prog) {
                V::Err(m) => V::Err(m),
                x => V::Union(*u, *v, Box::new(x)),
            },
            E::VOpt(a, v) => match self.eval(a, env, prog) {
                V::Union(_, w, x) => V::Opt(if w == *v { Some(x) } else { None }),
                V::Err(m) => V::Err(m),
                _ => V::Err("model: variant of non-union".into()),
            },
            E::VGet(a, v) => match self.eval(a, env, prog) {
                V::Union(_, w, x) => {
                    if w == *v {
                        *x
                    } else {
                        V::Err("value is of incorrect variant".into())
                    }
                }
                V::Err(m) => V::Err(m),
                _ => V::Err("model: variant of non-union".into()),
            },
            E::Lambda(ps, body) => V::Fn(self.closure(ps, body, env, prog)),
            E::NoneOf(_) => V::Opt(None),
            E::UserIndex(a, i, _) => self.named("get", &[(**a).clone(), (**i).clone()], env, prog, true),
            E::UserNeg(a, _) => self.named("neg", &[(**a).clone()], env, prog, true),
        }
    }

    /// call by name: a user function of that name in scope (operators are the functions they
    /// alias, so a user overload for a struct operand takes effect), else the builtin
    fn named(&mut self, name: &str, xs: &[E], env: &Option<Rc<Env>>, prog: &Prog, user: bool) -> V {
        // short-circuit builtins first
        match (name, xs.len()) {
            ("if", 3) => {
                return match self.eval(&xs[0], env, prog) {
                    V::Bool(true) => self.eval(&xs[1], env, prog),
                    V::Bool(false) => self.eval(&xs[2], env, prog),
                    V::Err(m) => V::Err(m),
                    _ => V::Err("model: if on non-bool".into()),
                }
            }
            ("and", 2) | ("or", 2) => {
                let a = self.eval(&xs[0], env, prog);
                match (&a, name) {
                    (V::Bool(false), "and") => return V::Bool(false),
                    (V::Bool(true), "or") => return V::Bool(true),
                    (V::Bool(_), _) => return self.eval(&xs[1], env, prog),
                    (V::Err(m), _) => return V::Err(m.clone()),
                    // optional or / and
                    // or(Optional<T>, T) -> T (the generator never uses the Optional, Optional form)
                    (V::Opt(Some(x)), "or") => return (**x).clone(),
                    (V::Opt(None), "or") => return self.eval(&xs[1], env, prog),
                    (V::Opt(Some(_)), "and") => return self.eval(&xs[1], env, prog),
                    (V::Opt(None), "and") => return a,
                    _ => return V::Err("model: and/or".into()),
                }
            }
            ("then", 2) => {
                return match self.eval(&xs[0], env, prog) {
                    V::Bool(true) => match self.eval(&xs[1], env, prog) {
                        V::Err(m) => V::Err(m),
                        v => V::Opt(Some(Box::new(v))),
                    },
                    V::Bool(false) => V::Opt(None),
                    V::Err(m) => V::Err(m),
                    _ => V::Err("model: then".into()),
                }
            }
            ("if_error", 2) => {
                return match self.eval(&xs[0], env, prog) {
                    V::Err(_) => self.eval(&xs[1], env, prog),
                    v => v,
                }
            }
            ("map_or", 3) => {
                return match self.eval(&xs[0], env, prog) {
                    V::Opt(Some(x)) => match self.eval(&xs[1], env, prog) {
                        V::Fn(c) => self.call(&c, vec![*x], prog),
                        V::Err(m) => V::Err(m),
                        _ => V::Err("model: map_or".into()),
                    },
                    V::Opt(None) => self.eval(&xs[2], env, prog),
                    V::Err(m) => V::Err(m),
                    _ => V::Err("model: map_or".into()),
                }
            }
            ("is_error", 1) => {
                return V::Bool(self.eval(&xs[0], env, prog).is_err());
            }
            _ => {}
        }
        // user functions have fresh names; user overloads of operator names are reached through UserOp
        if user {
            if let Some(c) = self.user_fn(env, name) {
                return match self.eager(xs, env, prog, false) {
                    Ok(vals) => self.call(&c, vals, prog),
                    Err(e) => e,
                };
            }
        }
        let vals = match self.eager(xs, env, prog, true) {
            Ok(v) => v,
            Err(e) => return e,
        };
        self.builtin(name, vals)
    }

    fn builtin(&mut self, name: &str, v: Vec<V>) -> V {
        use V::*;
        let int2 = |v: &[V]| -> Option<(BigInt, BigInt)> {
            match (&v[0], &v[1]) {
                (Int(a), Int(b)) => Some((a.clone(), b.clone())),
                _ => None,
            }
        };
        match (name, v.as_slice()) {
            ("add", [Int(a), Int(b)]) => Int(a + b),
            ("add", [Str(a), Str(b)]) => Str(format!("{a}{b}")),
            ("add", [Seq(a), Seq(b)]) => Seq(Rc::new(a.iter().chain(b.iter()).cloned().collect())),
            ("sub", [Int(a), Int(b)]) => Int(a - b),
            ("mul", [Int(a), Int(b)]) => Int(a * b),
            ("mod", [Int(a), Int(b)]) => {
                if b.is_zero() {
                    Err("Modulo by zero".into())
                } else {
                    Int(a.mod_floor(b))
                }
            }
            ("pow", [Int(a), Int(b)]) => {
                if b.is_negative() {
                    Err("cannot raise integer to a negative power".into())
                } else if a.is_zero() && b.is_zero() {
                    Err("cannot raise zero to a zero power".into())
                } else {
                    match b.to_u32() {
                        Some(k) if k <= 64 => Int(num_traits::pow(a.clone(), k as usize)),
                        _ => {
                            self.exhausted = true;
                            Err("model: exponent".into())
                        }
                    }
                }
            }
            ("neg", [Int(a)]) => Int(-a),
            ("not", [Bool(a)]) => Bool(!a),
            ("bit_and", [Int(a), Int(b)]) => Int(a & b),
            ("bit_or", [Int(a), Int(b)]) => Int(a | b),
            ("bit_xor", [Int(a), Int(b)]) => Int(a ^ b),
            ("bit_xor", [Bool(a), Bool(b)]) => Bool(a ^ b),
            ("lt", _) => int2(&v).map_or(Err("model: lt".into()), |(a, b)| Bool(a < b)),
            ("le", _) => int2(&v).map_or(Err("model: le".into()), |(a, b)| Bool(a <= b)),
            ("gt", _) => int2(&v).map_or(Err("model: gt".into()), |(a, b)| Bool(a > b)),
            ("ge", _) => int2(&v).map_or(Err("model: ge".into()), |(a, b)| Bool(a >= b)),
            ("eq", [a, b]) => Bool(veq(a, b)),
            ("ne", [a, b]) => Bool(!veq(a, b)),
            ("len", [Str(s)]) => Int(BigInt::from(s.chars().count())),
            ("len", [Seq(s)]) => Int(BigInt::from(s.len())),
            ("to_str", [Int(a)]) => Str(a.to_string()),
            ("to_str", [Bool(a)]) => Str(a.to_string()),
            ("get", [Seq(s), Int(i)]) => {
                let n = BigInt::from(s.len());
                if i >= &n {
                    Err("index out of bounds".into())
                } else if i < &-n.clone() {
                    Err("index too low".into())
                } else {
                    let k = if i.is_negative() { i + &n } else { i.clone() };
                    s[k.to_usize().unwrap()].clone()
                }
            }
            ("push", [Seq(s), x]) => {
                let mut n = (**s).clone();
                n.push(x.clone());
                Seq(Rc::new(n))
            }
            ("some", [x]) => Opt(Some(Box::new(x.clone()))),
            ("none", []) => Opt(None),
            ("has_value", [Opt(o)]) => Bool(o.is_some()),
            ("value", [Opt(o)]) => match o {
                Some(x) => (**x).clone(),
                None => Err("optional has no value".into()),
            },
            ("error", [Str(m)]) => Err(m.clone()),
            ("display", [x]) => {
                if self.undocumented_depth > 0 {
                    self.undocumented.push(self.out.len());
                }
                self.out.push((show(x), self.optional_depth > 0 || self.undocumented_depth > 0));
                x.clone()
            }
            ("display", [x, Str(p)]) => {
                if self.undocumented_depth > 0 {
                    self.undocumented.push(self.out.len());
                }
                self.out.push((format!("{p}{}", show(x)), self.optional_depth > 0 || self.undocumented_depth > 0));
                x.clone()
            }
            ("min", [Int(a), Int(b)]) => Int(a.clone().min(b.clone())),
            ("max", [Int(a), Int(b)]) => Int(a.clone().max(b.clone())),
            ("abs", [Int(a)]) => Int(a.abs()),
            _ => {
                self.exhausted = true;
                Err(format!("model: no builtin {name}/{}", v.len()))
            }
        }
    }
}

fn show(v: &V) -> String {
    match v {
        V::Int(i) => i.to_string(),
        V::Bool(b) => b.to_string(),
        V::Str(s) => s.clone(),
        _ => "?".into(),
    }
}

// ------------------------------------------------------------------------------------------
// typed generator
// ------------------------------------------------------------------------------------------

#[derive(Clone)]
struct FnSigR {
    name: String,
    params: Vec<T>,
    /// number of trailing optional parameters
    optional: usize,
    ret: T,
}

#[derive(Clone, Default)]
struct Scope {
    vars: Vec<(String, T)>,
    fns: Vec<FnSigR>,
}

pub struct Gen<'a, 'b> {
    pub t: &'a mut Tape<'b>,
    pub prog: Prog,
    pub prefix: String,
    counter: usize,
    display_id: i64,
    /// struct indices that have user operator overloads: (struct, op name)
    overloads: Vec<(usize, &'static str)>,
    /// struct with user `get` / `neg` overloads
    index_overload: Option<usize>,
    /// statistics for the non-triviality rule
    pub n_ops_by_level: [u32; 7],
    pub n_short_circuit_effects: u32,
    pub n_displays: u32,
    pub n_sugar: u32,
}

const WORDS: &[&str] = &["a", "bc", "", "xyz", "q"];

impl<'a, 'b> Gen<'a, 'b> {
    pub fn new(t: &'a mut Tape<'b>) -> Self {
        Gen { t, prog: Prog::default(), prefix: String::new(), counter: 0, display_id: 0, overloads: vec![], index_overload: None, n_ops_by_level: [0; 7], n_short_circuit_effects: 0, n_displays: 0, n_sugar: 0 }
    }

    fn fresh(&mut self, p: &str) -> String {
        self.counter += 1;
        format!("{}{p}{}", self.prefix, self.counter)
    }

    fn style(&mut self) -> Style {
        match self.t.below(5) {
            0 => {
                self.n_sugar += 1;
                Style::Call
            }
            1 => {
                self.n_sugar += 1;
                Style::Method
            }
            _ => Style::Operator,
        }
    }

    fn small_type(&mut self, depth: u32) -> T {
        let n_s = self.prog.structs.len();
        let n_u = self.prog.unions.len();
        match self.t.below(if depth == 0 { 4 } else { 10 }) {
            0 | 1 => T::Int,
            2 => T::Bool,
            3 => T::Str,
            4 => T::Seq(Box::new(self.small_type(depth - 1))),
            5 => T::Opt(Box::new(self.small_type(depth - 1))),
            6 => {
                let n = 1 + self.t.below(3);
                T::Tup((0..n).map(|_| self.small_type(depth - 1)).collect())
            }
            7 if n_s > 0 => T::Struct(self.t.below(n_s)),
            8 if n_u > 0 => T::Union(self.t.below(n_u)),
            9 => T::Fn(vec![T::Int], Box::new(T::Int)),
            _ => T::Int,
        }
    }

    /// wrap in display (int / bool / str only), with a distinct payload where possible
    fn maybe_display(&mut self, e: E, ty: &T, chance: usize) -> E {
        if matches!(ty, T::Int | T::Bool | T::Str) && self.t.below(chance) == 0 {
            self.n_displays += 1;
            self.display_id += 1;
            if self.t.below(3) == 0 {
                E::Call("display".into(), vec![e, E::Str(format!("d{}:", self.display_id))], self.t.bool())
            } else {
                E::Call("display".into(), vec![e], false)
            }
        } else {
            e
        }
    }

    /// an expression whose evaluation always prints a distinct line (for skipped arguments)
    fn effect(&mut self, ty: &T, sc: &Scope, depth: u32) -> E {
        let inner = self.expr(ty, sc, depth);
        if matches!(ty, T::Int | T::Bool | T::Str) {
            self.display_id += 1;
            self.n_displays += 1;
            E::Call("display".into(), vec![inner, E::Str(format!("e{}:", self.display_id))], false)
        } else {
            inner
        }
    }

    fn var_of(&mut self, ty: &T, sc: &Scope) -> Option<E> {
        let c: Vec<&(String, T)> = sc.vars.iter().filter(|(_, t)| t == ty).collect();
        if c.is_empty() {
            None
        } else {
            Some(E::Var(c[self.t.below(c.len())].0.clone()))
        }
    }

    fn literal(&mut self, ty: &T, sc: &Scope) -> E {
        match ty {
            T::Int => {
                let v = match self.t.below(8) {
                    0 => BigInt::from(0),
                    1 => BigInt::from(1),
                    2 => -BigInt::from(self.t.below(20) as i64),
                    3 => BigInt::one() << (60 + self.t.below(10)),
                    _ => BigInt::from(self.t.below(50) as i64),
                };
                E::Int(v)
            }
            T::Bool => E::Bool(self.t.bool()),
            T::Str => E::Str(self.t.pick(WORDS).to_string()),
            T::Seq(x) => {
                let n = 1 + self.t.below(2);
                E::Arr((0..n).map(|_| self.literal(x, sc)).collect())
            }
            T::Opt(x) => {
                if self.t.bool() {
                    E::Call("some".into(), vec![self.literal(x, sc)], false)
                } else {
                    E::NoneOf((**x).clone())
                }
            }
            T::Tup(xs) => E::Tup(xs.iter().map(|x| self.literal(x, sc)).collect()),
            T::Struct(s) => {
                let fs = self.prog.structs[*s].1.clone();
                E::New(*s, fs.iter().map(|x| self.literal(x, sc)).collect())
            }
            T::Union(u) => {
                let vs = self.prog.unions[*u].1.clone();
                let v = self.t.below(vs.len());
                E::Variant(*u, v, Box::new(self.literal(&vs[v], sc)))
            }
            T::Fn(ps, r) => {
                let params: Vec<(String, T, Option<Box<E>>)> = ps.iter().map(|p| (self.fresh("l"), p.clone(), None)).collect();
                let mut inner = sc.clone();
                for (n, t, _) in &params {
                    inner.vars.push((n.clone(), t.clone()));
                }
                let ret = self.expr(r, &inner, 1);
                E::Lambda(params, Box::new(Body { decls: vec![], ret }))
            }
        }
    }

    pub fn expr(&mut self, ty: &T, sc: &Scope, depth: u32) -> E {
        if depth == 0 || self.t.exhausted() {
            return match self.var_of(ty, sc) {
                Some(v) if self.t.bool() => v,
                _ => self.literal(ty, sc),
            };
        }
        let d = depth - 1;
        // forms available for every type
        let generic_choice = self.t.below(12);
        match generic_choice {
            0 => {
                if let Some(v) = self.var_of(ty, sc) {
                    return v;
                }
            }
            1 => {
                // if(c, a, b), with effects in both branches
                let c = self.expr(&T::Bool, sc, d);
                let (a, b) = (self.effect(ty, sc, d), self.effect(ty, sc, d));
                self.n_short_circuit_effects += 1;
                return E::Call("if".into(), vec![c, a, b], self.t.below(3) == 0);
            }
            2 => {
                // call of a user function returning ty
                let c: Vec<FnSigR> = sc.fns.iter().filter(|f| &f.ret == ty).cloned().collect();
                if !c.is_empty() {
                    let f = c[self.t.below(c.len())].clone();
                    let n_args = f.params.len() - if f.optional > 0 { self.t.below(f.optional + 1) } else { 0 };
                    let args: Vec<E> = f.params[..n_args].iter().map(|p| {
                        let e = self.expr(p, sc, d);
                        self.maybe_display(e, p, 3)
                    }).collect();
                    let method = !args.is_empty() && self.t.below(3) == 0;
                    if method {
                        self.n_sugar += 1;
                    }
                    return E::Call(f.name, args, method);
                }
            }
            3 => {
                // member of a tuple / struct variable, index of a sequence, value of an optional
                let mut c: Vec<E> = vec![];
                for (n, t) in &sc.vars {
                    match t {
                        T::Tup(xs) => xs.iter().enumerate().filter(|(_, x)| *x == ty).for_each(|(i, _)| c.push(E::Item(Box::new(E::Var(n.clone())), i))),
                        T::Struct(s) => self.prog.structs[*s].1.iter().enumerate().filter(|(_, x)| *x == ty).for_each(|(i, _)| c.push(E::Field(Box::new(E::Var(n.clone())), i))),
                        T::Union(u) => self.prog.unions[*u].1.iter().enumerate().filter(|(_, x)| *x == ty).for_each(|(i, _)| c.push(E::VGet(Box::new(E::Var(n.clone())), i))),
                        _ => {}
                    }
                }
                if !c.is_empty() {
                    let k = self.t.below(c.len());
                    return c.swap_remove(k);
                }
            }
            4 => {
                // index into a sequence of ty
                let seq = self.expr(&T::Seq(Box::new(ty.clone())), sc, d);
                let idx = self.expr(&T::Int, sc, d.min(1));
                let style = self.style();
                return E::Index(Box::new(seq), Box::new(idx), style);
            }
            5 => {
                // value / or / map_or of an optional
                let o = self.expr(&T::Opt(Box::new(ty.clone())), sc, d);
                let k = if matches!(ty, T::Opt(_)) { 0 } else { self.t.below(3) };
                return match k {
                    0 => E::Call("value".into(), vec![o], self.t.bool()),
                    1 => {
                        self.n_short_circuit_effects += 1;
                        let alt = self.effect(ty, sc, d);
                        E::Call("or".into(), vec![o, alt], self.t.bool())
                    }
                    _ => {
                        self.n_short_circuit_effects += 1;
                        let p = self.fresh("m");
                        let mut inner = sc.clone();
                        inner.vars.push((p.clone(), ty.clone()));
                        let f_body = self.effect(ty, &inner, d);
                        let alt = self.effect(ty, sc, d);
                        E::Call("map_or".into(), vec![o, E::Lambda(vec![(p, ty.clone(), None)], Box::new(Body { decls: vec![], ret: f_body })), alt], self.t.bool())
                    }
                };
            }
            6 => {
                // immediately applied lambda / function value call
                let pt = self.small_type(1);
                let p = self.fresh("x");
                let mut inner = sc.clone();
                inner.vars.push((p.clone(), pt.clone()));
                let body = self.expr(ty, &inner, d);
                let arg = self.expr(&pt, sc, d);
                let arg = self.maybe_display(arg, &pt, 3);
                return E::CallV(Box::new(E::Lambda(vec![(p, pt, None)], Box::new(Body { decls: vec![], ret: body }))), vec![arg]);
            }
            7 => {
                let c: Vec<(String, Vec<T>)> = sc.vars.iter().filter_map(|(n, t)| match t { T::Fn(ps, r) if **r == *ty => Some((n.clone(), ps.clone())), _ => None }).collect();
                if !c.is_empty() {
                    let (n, ps) = c[self.t.below(c.len())].clone();
                    let args = ps.iter().map(|p| self.expr(p, sc, d)).collect();
                    return E::CallV(Box::new(E::Var(n)), args);
                }
            }
            8 => {
                // if_error(x, alt)
                let x = self.expr(ty, sc, d);
                let alt = self.effect(ty, sc, d);
                self.n_short_circuit_effects += 1;
                return E::Call("if_error".into(), vec![x, alt], false);
            }
            _ => {}
        }
        match ty {
            T::Int => {
                let k = self.t.below(14);
                let (a, b) = (T::Int, T::Int);
                let bin = |g: &mut Self, name: &'static str, lvl: usize| -> E {
                    let x = g.expr(&a, sc, d);
                    let x = g.maybe_display(x, &T::Int, 6);
                    let y = g.expr(&b, sc, d);
                    let y = g.maybe_display(y, &T::Int, 6);
                    let style = g.style();
                    if style == Style::Operator {
                        g.n_ops_by_level[lvl] += 1;
                    }
                    E::Bin(name, Box::new(x), Box::new(y), style)
                };
                match k {
                    0 | 1 => bin(self, "add", 4),
                    2 | 3 => bin(self, "sub", 4),
                    4 | 5 => bin(self, "mul", 5),
                    6 => bin(self, "mod", 5),
                    7 => {
                        let x = self.expr(&T::Int, sc, d);
                        let e = match self.t.below(6) {
                            0 => -1,
                            1 => 0,
                            2 => 1,
                            3 => 2,
                            _ => 3,
                        };
                        let style = self.style();
                        if style == Style::Operator {
                            self.n_ops_by_level[6] += 1;
                        }
                        // a chain a ** b ** c now and then (right associative)
                        let exponent = if self.t.below(3) == 0 {
                            let (b, c) = (self.t.below(4) as i64, self.t.below(3) as i64);
                            let st = self.style();
                            E::Bin("pow", Box::new(E::Int(BigInt::from(b))), Box::new(E::Int(BigInt::from(c))), st)
                        } else {
                            E::Int(BigInt::from(e))
                        };
                        E::Bin("pow", Box::new(x), Box::new(exponent), style)
                    }
                    8 => {
                        let x = self.expr(&T::Int, sc, d);
                        let style = self.style();
                        E::Un("neg", Box::new(x), style)
                    }
                    9 => match self.t.below(3) {
                        0 => bin(self, "bit_and", 3),
                        1 => bin(self, "bit_or", 3),
                        _ => bin(self, "bit_xor", 3),
                    },
                    10 => {
                        let s = if self.t.bool() { self.expr(&T::Str, sc, d) } else { self.expr(&T::Seq(Box::new(T::Int)), sc, d) };
                        E::Call("len".into(), vec![s], self.t.bool())
                    }
                    11 => {
                        let x = self.expr(&T::Int, sc, d);
                        let y = self.expr(&T::Int, sc, d);
                        E::Call(if self.t.bool() { "min" } else { "max" }.into(), vec![x, y], self.t.bool())
                    }
                    12 => {
                        let e = self.literal(&T::Int, sc);
                        self.maybe_display(e, &T::Int, 2)
                    }
                    _ if self.index_overload.is_some() && self.t.bool() => {
                        // s[i] and (-s)[i] through the user's get / neg
                        let s = self.index_overload.unwrap();
                        let x = self.struct_operand(s, sc);
                        let x = if self.t.below(3) == 0 {
                            let st = self.style();
                            E::UserNeg(Box::new(x), st)
                        } else {
                            x
                        };
                        let i = self.expr(&T::Int, sc, d.min(1));
                        self.n_sugar += 1;
                        let style = self.style();
                        E::UserIndex(Box::new(x), Box::new(i), style)
                    }
                    _ => {
                        // struct operator overload result projected to int
                        let ov: Vec<(usize, &'static str)> = self.overloads.clone();
                        if let Some((s, op)) = ov.first().copied() {
                            let x = self.struct_operand(s, sc);
                            let y = self.struct_operand(s, sc);
                            self.n_sugar += 1;
                            let style = self.style();
                            let call = E::UserOp(op, Box::new(x), Box::new(y), style);
                            let fields = self.prog.structs[s].1.clone();
                            if let Some(i) = fields.iter().position(|f| *f == T::Int) {
                                return E::Field(Box::new(call), i);
                            }
                        }
                        self.literal(&T::Int, sc)
                    }
                }
            }
            T::Bool => {
                let k = self.t.below(9);
                match k {
                    0 | 1 | 2 => {
                        let name = *self.t.pick(&["lt", "le", "gt", "ge", "eq", "ne"]);
                        let x = self.expr(&T::Int, sc, d);
                        let y = self.expr(&T::Int, sc, d);
                        let style = self.style();
                        if style == Style::Operator {
                            self.n_ops_by_level[2] += 1;
                        }
                        E::Bin(name, Box::new(x), Box::new(y), style)
                    }
                    3 | 4 => {
                        let name = if self.t.bool() { "and" } else { "or" };
                        let x = self.expr(&T::Bool, sc, d);
                        let y = self.effect(&T::Bool, sc, d);
                        self.n_short_circuit_effects += 1;
                        let style = self.style();
                        if style == Style::Operator {
                            self.n_ops_by_level[1] += 1;
                        }
                        E::Bin(name, Box::new(x), Box::new(y), style)
                    }
                    5 => {
                        let x = self.expr(&T::Bool, sc, d);
                        let style = self.style();
                        E::Un("not", Box::new(x), style)
                    }
                    6 => {
                        let t = if self.t.bool() { T::Str } else { T::Seq(Box::new(T::Int)) };
                        let x = self.expr(&t, sc, d);
                        let y = self.expr(&t, sc, d);
                        let style = self.style();
                        E::Bin(if self.t.bool() { "eq" } else { "ne" }, Box::new(x), Box::new(y), style)
                    }
                    7 => {
                        let it = self.small_type(0);
                        let o = self.expr(&T::Opt(Box::new(it)), sc, d);
                        E::Call("has_value".into(), vec![o], self.t.bool())
                    }
                    _ => {
                        let e = self.literal(&T::Bool, sc);
                        self.maybe_display(e, &T::Bool, 2)
                    }
                }
            }
            T::Str => match self.t.below(4) {
                0 => {
                    let x = self.expr(&T::Str, sc, d);
                    let y = self.expr(&T::Str, sc, d);
                    let style = self.style();
                    E::Bin("add", Box::new(x), Box::new(y), style)
                }
                1 => {
                    let x = self.expr(&T::Int, sc, d);
                    E::Call("to_str".into(), vec![x], self.t.bool())
                }
                _ => {
                    let e = self.literal(&T::Str, sc);
                    self.maybe_display(e, &T::Str, 2)
                }
            },
            T::Seq(x) => match self.t.below(4) {
                0 => {
                    let a = self.expr(ty, sc, d);
                    let b = self.expr(ty, sc, d);
                    let style = self.style();
                    E::Bin("add", Box::new(a), Box::new(b), style)
                }
                1 => {
                    let a = self.expr(ty, sc, d);
                    let b = self.expr(x, sc, d);
                    E::Call("push".into(), vec![a, b], self.t.bool())
                }
                _ => {
                    let n = 1 + self.t.below(3);
                    let items: Vec<E> = (0..n).map(|_| {
                        let e = self.expr(x, sc, d);
                        self.maybe_display(e, x, 4)
                    }).collect();
                    E::Arr(items)
                }
            },
            T::Opt(x) => match self.t.below(4) {
                0 => E::NoneOf((**x).clone()),
                1 => {
                    let c = self.expr(&T::Bool, sc, d);
                    let v = self.effect(x, sc, d);
                    self.n_short_circuit_effects += 1;
                    E::Call("then".into(), vec![c, v], self.t.bool())
                }
                2 => {
                    // ?: of a union variable
                    let mut c: Vec<E> = vec![];
                    for (n, t) in &sc.vars {
                        if let T::Union(u) = t {
                            self.prog.unions[*u].1.iter().enumerate().filter(|(_, v)| **v == **x).for_each(|(i, _)| c.push(E::VOpt(Box::new(E::Var(n.clone())), i)));
                        }
                    }
                    if c.is_empty() {
                        E::Call("some".into(), vec![self.expr(x, sc, d)], false)
                    } else {
                        let k = self.t.below(c.len());
                        c.swap_remove(k)
                    }
                }
                _ => E::Call("some".into(), vec![self.expr(x, sc, d)], false),
            },
            T::Tup(xs) => E::Tup(xs.iter().map(|x| {
                let e = self.expr(x, sc, d);
                self.maybe_display(e, x, 4)
            }).collect()),
            T::Struct(s) => {
                let fs = self.prog.structs[*s].1.clone();
                E::New(*s, fs.iter().map(|x| {
                    let e = self.expr(x, sc, d);
                    self.maybe_display(e, x, 4)
                }).collect())
            }
            T::Union(u) => {
                let vs = self.prog.unions[*u].1.clone();
                let v = self.t.below(vs.len());
                E::Variant(*u, v, Box::new(self.expr(&vs[v], sc, d)))
            }
            T::Fn(..) => match self.var_of(ty, sc) {
                Some(v) if self.t.bool() => v,
                _ => self.literal(ty, sc),
            },
        }
    }

    /// an effect-free operand of struct type for an operator overload (variable or construction)
    fn struct_operand(&mut self, s: usize, sc: &Scope) -> E {
        match self.var_of(&T::Struct(s), sc) {
            Some(v) if self.t.bool() => v,
            _ => {
                let fs = self.prog.structs[s].1.clone();
                E::New(s, fs.iter().map(|x| self.literal(x, sc)).collect())
            }
        }
    }

    fn fn_decl(&mut self, sc: &Scope, depth: u32, nest: u32) -> (FnDecl, FnSigR) {
        let name = self.fresh("f");
        let np = self.t.below(4);
        let mut params: Vec<(String, T, Option<Box<E>>)> = vec![];
        let n_opt = if np > 0 { self.t.below(3).min(np) } else { 0 };
        for i in 0..np {
            let ty = self.small_type(1);
            let pn = self.fresh("p");
            let default = if i >= np - n_opt {
                // defaults are evaluated once, in the defining scope: make that visible
                let e = self.expr(&ty, sc, 1);
                Some(Box::new(self.maybe_display(e, &ty, 2)))
            } else {
                None
            };
            params.push((pn, ty, default));
        }
        let ret = self.small_type(1);
        let mut inner = sc.clone();
        for (n, t, _) in &params {
            inner.vars.push((n.clone(), t.clone()));
        }
        let sig = FnSigR { name: name.clone(), params: params.iter().map(|p| p.1.clone()).collect(), optional: n_opt, ret: ret.clone() };
        // no recursion here (termination); C03 and C07 generate recursive shapes
        let body = self.body(&ret, &mut inner, depth, nest);
        (FnDecl { name, params, ret, body }, sig)
    }

    fn body(&mut self, ret: &T, sc: &mut Scope, depth: u32, nest: u32) -> Body {
        let mut decls = vec![];
        for _ in 0..self.t.below(3) {
            if nest > 0 && self.t.below(4) == 0 {
                let (f, sig) = self.fn_decl(sc, depth.saturating_sub(1).max(1), nest - 1);
                sc.fns.push(sig);
                decls.push(Decl::Fn(f));
            } else {
                let ty = self.small_type(1);
                let e = self.expr(&ty, sc, depth);
                let e = self.maybe_display(e, &ty, 4);
                let n = self.fresh("v");
                sc.vars.push((n.clone(), ty));
                decls.push(Decl::Let(n, e));
            }
        }
        let r = self.expr(ret, sc, depth);
        Body { decls, ret: r }
    }

    pub fn program(mut self, max_decls: usize, depth: u32) -> (Prog, Gen<'a, 'b>) {
        // compounds
        for i in 0..self.t.below(3) {
            let n = 1 + self.t.below(3);
            let fs = (0..n).map(|_| self.small_type(1)).collect();
            self.prog.structs.push((format!("{}S{i}", self.prefix), fs));
        }
        for i in 0..self.t.below(3) {
            let n = 1 + self.t.below(3);
            let vs = (0..n).map(|_| self.small_type(1)).collect();
            self.prog.unions.push((format!("{}U{i}", self.prefix), vs));
        }
        let mut sc = Scope::default();
        let mut decls = vec![];
        // a user overload of an operator for a struct (operators are the functions they alias)
        if !self.prog.structs.is_empty() && self.t.bool() {
            let s = self.t.below(self.prog.structs.len());
            let op: &'static str = *self.t.pick(&["add", "sub", "mul", "bit_or", "lt", "eq"]);
            let fs = self.prog.structs[s].1.clone();
            // only arithmetic-shaped results here: returns a struct built from the operands' fields
            if !matches!(op, "lt" | "eq") {
                let (a, b) = ("oa".to_string(), "ob".to_string());
                let fields: Vec<E> = fs
                    .iter()
                    .enumerate()
                    .map(|(i, t)| {
                        let fa = E::Field(Box::new(E::Var(a.clone())), i);
                        let fb = E::Field(Box::new(E::Var(b.clone())), i);
                        match t {
                            T::Int => E::Bin("sub", Box::new(E::Bin("mul", Box::new(fa), Box::new(E::Int(BigInt::from(3))), Style::Operator)), Box::new(fb), Style::Operator),
                            T::Str => E::Bin("add", Box::new(fb), Box::new(fa), Style::Operator),
                            _ => fa,
                        }
                    })
                    .collect();
                self.display_id += 1;
                let tell = E::Call("display".into(), vec![E::Str(format!("user {op}"))], false);
                let body = Body { decls: vec![Decl::Let("ot".into(), tell)], ret: E::New(s, fields) };
                decls.push(Decl::Fn(FnDecl {
                    name: op.to_string(),
                    params: vec![(a, T::Struct(s), None), (b, T::Struct(s), None)],
                    ret: T::Struct(s),
                    body,
                }));
                self.overloads.push((s, op));
            }
        }
        // user overloads of get (index sugar) and neg (unary minus) for a struct
        if !self.prog.structs.is_empty() && self.t.below(3) == 0 {
            let s = self.t.below(self.prog.structs.len());
            let fs = self.prog.structs[s].1.clone();
            let first_int = fs.iter().position(|f| *f == T::Int);
            let base = match first_int {
                Some(i) => E::Field(Box::new(E::Var("oa".into())), i),
                None => E::Int(BigInt::from(17)),
            };
            let tell = E::Call("display".into(), vec![E::Str("user get".into())], false);
            decls.push(Decl::Fn(FnDecl {
                name: "get".into(),
                params: vec![("oa".into(), T::Struct(s), None), ("oi".into(), T::Int, None)],
                ret: T::Int,
                body: Body {
                    decls: vec![Decl::Let("ot".into(), tell)],
                    ret: E::Bin("add", Box::new(E::Bin("mul", Box::new(base), Box::new(E::Int(BigInt::from(10))), Style::Operator)), Box::new(E::Var("oi".into())), Style::Operator),
                },
            }));
            let tell = E::Call("display".into(), vec![E::Str("user neg".into())], false);
            let fields: Vec<E> = fs
                .iter()
                .enumerate()
                .map(|(i, t)| {
                    let fa = E::Field(Box::new(E::Var("oa".into())), i);
                    match t {
                        T::Int => E::Bin("sub", Box::new(E::Int(BigInt::from(1000))), Box::new(fa), Style::Operator),
                        _ => fa,
                    }
                })
                .collect();
            decls.push(Decl::Fn(FnDecl {
                name: "neg".into(),
                params: vec![("oa".into(), T::Struct(s), None)],
                ret: T::Struct(s),
                body: Body { decls: vec![Decl::Let("ot".into(), tell)], ret: E::New(s, fields) },
            }));
            self.index_overload = Some(s);
        }
        let n = 3 + self.t.below(max_decls.saturating_sub(3).max(1));
        for _ in 0..n {
            if self.t.exhausted() {
                break;
            }
            if self.t.below(4) == 0 {
                let (f, sig) = self.fn_decl(&sc, depth.min(3), 2);
                sc.fns.push(sig);
                decls.push(Decl::Fn(f));
            } else {
                let ty = self.small_type(2);
                let e = self.expr(&ty, &sc, depth);
                let e = self.maybe_display(e, &ty, 5);
                let name = self.fresh("t");
                sc.vars.push((name.clone(), ty));
                decls.push(Decl::Let(name, e));
            }
        }
        self.prog.decls = decls;
        let p = self.prog.clone();
        (p, self)
    }
}

/// run the reference evaluator over a program: (top-level values by name, output, machine)
pub fn run_model(p: &Prog) -> (Vec<(String, V)>, Machine) {
    let mut m = Machine::new();
    let mut env: Option<Rc<Env>> = None;
    let mut tops = vec![];
    for d in &p.decls {
        env = m.decl(d, env, p);
        if let Decl::Let(n, _) = d {
            tops.push((n.clone(), lookup(&env, n).unwrap()));
        }
    }
    (tops, m)
}
