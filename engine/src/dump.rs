//! Canonical dumps on the supervisor side: constructors for model values and the
//! comparison `matches(expected, observed)`.
use num_bigint::BigInt;
use serde_json::{json, Value};

pub fn d_int(i: &BigInt) -> Value {
    json!({ "i": i.to_string() })
}
pub fn d_i64(i: i64) -> Value {
    json!({ "i": i.to_string() })
}
pub fn d_float(f: f64) -> Value {
    let f = if f == 0.0 { 0.0 } else { f };
    json!({ "f": format!("{:016x}", f.to_bits()) })
}
/// float within `ulps` units in the last place of `f`
pub fn d_float_approx(f: f64, ulps: u64) -> Value {
    json!({ "f_approx": [format!("{:016x}", f.to_bits()), ulps] })
}
pub fn d_str(s: &str) -> Value {
    json!({ "s": s })
}
pub fn d_bool(b: bool) -> Value {
    json!({ "b": b })
}
pub fn d_tuple(items: Vec<Value>) -> Value {
    json!({ "st": items })
}
pub fn d_union(tag: usize, v: Value) -> Value {
    json!({"un": [tag, v]})
}
pub fn d_seq(items: Vec<Value>) -> Value {
    json!({ "seq": items })
}
/// prefix of an infinite sequence
pub fn d_seq_inf(items: Vec<Value>) -> Value {
    json!({"seq": items, "inf": true})
}
pub fn d_opt(v: Option<Value>) -> Value {
    match v {
        None => json!({ "opt": null }),
        Some(v) => json!({"opt": [v]}),
    }
}
pub fn d_stack(items: Vec<Value>) -> Value {
    json!({ "stack": items })
}
pub fn d_set(items: Vec<Value>) -> Value {
    json!({ "set": items })
}
pub fn d_map(items: Vec<(Value, Value)>) -> Value {
    json!({"map": items.into_iter().map(|(k, v)| json!([k, v])).collect::<Vec<_>>()})
}
pub fn d_gen(items: Vec<Value>, more: bool) -> Value {
    json!({"gen": items, "more": more})
}
pub fn d_err_any() -> Value {
    json!({ "err": null })
}
pub fn d_any() -> Value {
    json!({ "any": 1 })
}

fn f_bits(v: &Value) -> Option<u64> {
    let s = v.as_str()?;
    let b = u64::from_str_radix(s, 16).ok()?;
    // -0.0 == 0.0
    Some(if b == 0x8000_0000_0000_0000 { 0 } else { b })
}

fn ordered(bits: u64) -> i128 {
    // map the bit pattern to a monotone integer line
    if bits >> 63 == 1 {
        -((bits & 0x7fff_ffff_ffff_ffff) as i128)
    } else {
        bits as i128
    }
}

/// canonical text of a stripped value (used to sort sets / mappings)
fn canon(v: &Value) -> String {
    strip(v).to_string()
}

/// remove auxiliary fields of an observed dump, normalise -0.0, sort sets and mappings
pub fn strip(v: &Value) -> Value {
    let Some(o) = v.as_object() else { return v.clone() };
    if let Some(i) = o.get("i") {
        return json!({ "i": i });
    }
    if let Some(f) = o.get("f") {
        return json!({"f": format!("{:016x}", f_bits(f).unwrap_or(0))});
    }
    if let Some(s) = o.get("s") {
        return json!({ "s": s });
    }
    if let Some(b) = o.get("b") {
        return json!({ "b": b });
    }
    if o.contains_key("fn") {
        return json!({"fn": 1});
    }
    if let Some(e) = o.get("err") {
        return json!({ "err": e });
    }
    let list = |k: &str| -> Vec<Value> {
        o.get(k)
            .and_then(|x| x.as_array())
            .map(|a| a.iter().map(strip).collect())
            .unwrap_or_default()
    };
    if o.contains_key("st") {
        return json!({"st": list("st")});
    }
    if let Some(u) = o.get("un").and_then(|x| x.as_array()) {
        return json!({"un": [u[0], strip(&u[1])]});
    }
    if o.contains_key("seq") {
        return if o.get("len").map_or(false, |l| l.is_null()) || o.get("inf").map_or(false, |b| b == true) {
            json!({"seq": list("seq"), "inf": true})
        } else {
            json!({"seq": list("seq")})
        };
    }
    if let Some(x) = o.get("opt") {
        return match x.as_array() {
            Some(a) if !a.is_empty() => json!({"opt": [strip(&a[0])]}),
            _ => json!({ "opt": null }),
        };
    }
    if o.contains_key("stack") {
        return json!({"stack": list("stack")});
    }
    if o.contains_key("set") {
        let mut l = list("set");
        l.sort_by_key(|v| v.to_string());
        return json!({ "set": l });
    }
    if o.contains_key("map") {
        let mut l = list("map");
        l.sort_by_key(|v| v.to_string());
        return json!({ "map": l });
    }
    if o.contains_key("gen") {
        return json!({"gen": list("gen"), "more": o.get("more").cloned().unwrap_or(Value::Bool(false))});
    }
    v.clone()
}

/// does the observed dump satisfy the expected one?  `expected` may contain the wildcards
/// {"any":1}, {"err":null} (an error element with any message), {"f_approx":[bits,ulps]},
/// {"one_of":[...]}.
pub fn matches(expected: &Value, observed: &Value) -> bool {
    matches_stripped(expected, &strip(observed))
}

fn matches_stripped(e: &Value, o: &Value) -> bool {
    let Some(eo) = e.as_object() else { return e == o };
    if eo.contains_key("any") {
        return true;
    }
    if let Some(alts) = eo.get("one_of").and_then(|a| a.as_array()) {
        return alts.iter().any(|a| matches_stripped(a, o));
    }
    let Some(oo) = o.as_object() else { return false };
    if let Some(msg) = eo.get("err") {
        return match oo.get("err") {
            None => false,
            Some(om) => msg.is_null() || msg == om,
        };
    }
    if let Some(fa) = eo.get("f_approx").and_then(|a| a.as_array()) {
        let (Some(eb), Some(ob)) = (f_bits(&fa[0]), oo.get("f").and_then(f_bits)) else { return false };
        let ulps = fa[1].as_u64().unwrap_or(0) as i128;
        return (ordered(eb) - ordered(ob)).abs() <= ulps;
    }
    if let Some(f) = eo.get("f") {
        return oo.get("f").and_then(f_bits) == f_bits(f) && f_bits(f).is_some();
    }
    for k in ["i", "s", "b", "fn"] {
        if let Some(x) = eo.get(k) {
            return oo.get(k) == Some(x);
        }
    }
    let pair = |k: &str| -> Option<(&Vec<Value>, &Vec<Value>)> {
        Some((eo.get(k)?.as_array()?, oo.get(k)?.as_array()?))
    };
    for k in ["st", "stack"] {
        if eo.contains_key(k) {
            let Some((a, b)) = pair(k) else { return false };
            return a.len() == b.len() && a.iter().zip(b).all(|(x, y)| matches_stripped(x, y));
        }
    }
    if eo.contains_key("seq") {
        let Some((a, b)) = pair("seq") else { return false };
        let e_inf = eo.get("inf").map_or(false, |x| x == true);
        let o_inf = oo.get("inf").map_or(false, |x| x == true);
        if e_inf != o_inf {
            return false;
        }
        if e_inf {
            let n = a.len().min(b.len());
            return a[..n].iter().zip(&b[..n]).all(|(x, y)| matches_stripped(x, y));
        }
        return a.len() == b.len() && a.iter().zip(b).all(|(x, y)| matches_stripped(x, y));
    }
    if eo.contains_key("un") {
        let Some((a, b)) = pair("un") else { return false };
        return a[0] == b[0] && matches_stripped(&a[1], &b[1]);
    }
    if let Some(x) = eo.get("opt") {
        let Some(y) = oo.get("opt") else { return false };
        return match (x.as_array(), y.as_array()) {
            (Some(a), Some(b)) if !a.is_empty() && !b.is_empty() => matches_stripped(&a[0], &b[0]),
            (None, None) => true,
            (Some(a), None) if a.is_empty() => true,
            _ => false,
        };
    }
    for k in ["set", "map"] {
        if eo.contains_key(k) {
            let Some((a, b)) = pair(k) else { return false };
            if a.len() != b.len() {
                return false;
            }
            // multiset matching (expected side sorted by canonical text; wildcards are not
            // used inside sets)
            let mut a2: Vec<String> = a.iter().map(canon).collect();
            let mut b2: Vec<String> = b.iter().map(|v| v.to_string()).collect();
            a2.sort();
            b2.sort();
            return a2 == b2;
        }
    }
    if eo.contains_key("gen") {
        let Some((a, b)) = pair("gen") else { return false };
        return eo.get("more") == oo.get("more")
            && a.len() == b.len()
            && a.iter().zip(b).all(|(x, y)| matches_stripped(x, y));
    }
    e == o
}

/// walk every node of an observed dump
pub fn walk(v: &Value, f: &mut dyn FnMut(&Value)) {
    f(v);
    match v {
        Value::Object(o) => {
            for (k, x) in o {
                if matches!(k.as_str(), "st" | "seq" | "stack" | "set" | "map" | "gen" | "un" | "opt") {
                    walk(x, f)
                }
            }
        }
        Value::Array(a) => {
            for x in a {
                walk(x, f)
            }
        }
        _ => {}
    }
}
