//! Job / reply protocol between supervisor and worker (length-prefixed JSON).
use serde::{Deserialize, Serialize};
use serde_json::Value;
use std::collections::BTreeMap;

#[derive(Serialize, Deserialize, Clone, Debug, Default, PartialEq)]
pub struct Limits {
    #[serde(default, skip_serializing_if = "Option::is_none")]
    pub size: Option<u64>,
    #[serde(default, skip_serializing_if = "Option::is_none")]
    pub depth: Option<u64>,
    #[serde(default, skip_serializing_if = "Option::is_none")]
    pub recursion: Option<u64>,
    #[serde(default, skip_serializing_if = "Option::is_none")]
    pub calls: Option<u64>,
    #[serde(default, skip_serializing_if = "Option::is_none")]
    pub search: Option<u64>,
    #[serde(default, skip_serializing_if = "Option::is_none")]
    pub time_ms: Option<u64>,
    /// permission id -> explicit allow / forbid; absent = documented default
    #[serde(default, skip_serializing_if = "BTreeMap::is_empty")]
    pub perms: BTreeMap<String, bool>,
}

#[derive(Serialize, Deserialize, Clone, Debug, PartialEq)]
#[serde(tag = "op", rename_all = "snake_case")]
pub enum Step {
    /// feed `src` (index into Job.srcs) to the compilation scope
    Compile { src: usize },
    /// feed `src` to a brand-new EMPTY compilation scope (no library); the scope is dropped
    CompileBare { src: usize },
    /// feed `src` to a brand-new standard-library scope; the scope is dropped
    CompileFresh { src: usize },
    /// replace the job's compilation scope by a standard-library scope compiled now
    NewStdScope,
    /// create the runtime and evaluate all top-level bindings
    Instantiate,
    /// dump a top-level binding
    Get { name: String },
    /// run a zero-argument top-level function and dump the result
    Run { name: String },
    /// run and discard the result (only the outcome class is reported)
    RunQuiet { name: String },
    ResetCalls,
    ResetTimeout,
    /// drop the evaluation scope (the runtime stays alive so that counters can be read)
    DropScope,
    /// report accounted bytes, user calls, doubles
    Counters,
    /// report the static type of a top-level variable
    StaticType { name: String },
    /// report the static types of all top-level variables and dump all of them
    DumpAll,
    /// root function signatures (JSON)
    RootFunctions,
    /// start recording the allocation trace
    TraceStart,
    /// report the recorded trace
    TraceTake,
    /// sleep for real (used by the time-limit family of C10)
    HostSleepMs { ms: u64 },
}

#[derive(Serialize, Deserialize, Clone, Debug, PartialEq)]
pub struct DumpOpts {
    pub max_nodes: usize,
    pub max_depth: usize,
    pub lazy_prefix: usize,
}

impl Default for DumpOpts {
    fn default() -> Self {
        Self {
            max_nodes: 4096,
            max_depth: 12,
            lazy_prefix: 16,
        }
    }
}

#[derive(Serialize, Deserialize, Clone, Debug, PartialEq)]
pub struct Job {
    pub srcs: Vec<String>,
    #[serde(default)]
    pub limits: Limits,
    pub steps: Vec<Step>,
    #[serde(default)]
    pub dump: DumpOpts,
    /// value returned by the injected clock
    #[serde(default)]
    pub clock: f64,
    #[serde(default)]
    pub rng_seed: u64,
    /// CPU seconds granted to the child (RLIMIT_CPU)
    #[serde(default = "default_cpu")]
    pub cpu_s: u64,
    /// start from an empty compilation scope instead of the standard library
    #[serde(default)]
    pub bare: bool,
    /// build a fresh std scope inside the child instead of the forked one
    #[serde(default)]
    pub fresh_scope: bool,
    /// continue with later steps after a panic (each step is independent)
    #[serde(default)]
    pub keep_going: bool,
}

fn default_cpu() -> u64 {
    10
}

impl Job {
    pub fn new(src: impl Into<String>) -> Self {
        Job {
            srcs: vec![src.into()],
            limits: Limits::default(),
            steps: vec![Step::Compile { src: 0 }, Step::Instantiate],
            dump: DumpOpts::default(),
            clock: 1_600_000_000.0,
            rng_seed: 1,
            cpu_s: default_cpu(),
            bare: false,
            fresh_scope: false,
            keep_going: true,
        }
    }
    pub fn run(mut self, name: impl Into<String>) -> Self {
        self.steps.push(Step::Run { name: name.into() });
        self
    }
    pub fn get(mut self, name: impl Into<String>) -> Self {
        self.steps.push(Step::Get { name: name.into() });
        self
    }
    pub fn step(mut self, s: Step) -> Self {
        self.steps.push(s);
        self
    }
    pub fn limits(mut self, l: Limits) -> Self {
        self.limits = l;
        self
    }
}

#[derive(Serialize, Deserialize, Clone, Debug, PartialEq)]
#[serde(tag = "k", rename_all = "snake_case")]
pub enum Out {
    /// step done, nothing to report
    Done,
    /// a value (canonical dump)
    Value { dump: Value },
    /// an error value
    Error { msg: String },
    /// a runtime violation
    Violation { v: String },
    /// compile error: class = trailing bracketed class, text = full rendering
    CompileError { class: String, text: String },
    Panic { msg: String, loc: String },
    Skipped,
    NotFound { why: String },
    Counters {
        bytes: u64,
        ud_calls: u64,
        writer_calls: u64,
        clock_reads: u64,
        rng_created: u64,
        rng_draws: u64,
    },
    Type { json: Value, text: String },
    All { vars: Vec<(String, Value, Box<Out>)> },
    Json { json: Value },
    Trace { trace: Vec<i64> },
}

impl Out {
    pub fn class(&self) -> &'static str {
        match self {
            Out::Done => "done",
            Out::Value { .. } => "value",
            Out::Error { .. } => "error",
            Out::Violation { .. } => "violation",
            Out::CompileError { .. } => "compile_error",
            Out::Panic { .. } => "panic",
            Out::Skipped => "skipped",
            Out::NotFound { .. } => "notfound",
            Out::Counters { .. } => "counters",
            Out::Type { .. } => "type",
            Out::All { .. } => "all",
            Out::Json { .. } => "json",
            Out::Trace { .. } => "trace",
        }
    }
    pub fn is_panic(&self) -> bool {
        matches!(self, Out::Panic { .. })
    }
}

/// how the child process ended
#[derive(Serialize, Deserialize, Clone, Debug, PartialEq)]
#[serde(tag = "k", rename_all = "snake_case")]
pub enum End {
    /// reply received
    Ok,
    /// abort / crash of the child (signal number or exit code)
    Abort { how: String },
    /// CPU budget exceeded (SIGXCPU)
    CpuTimeout,
    /// wall-clock backstop of the harness hit (harness trouble, never a property outcome)
    WallTimeout,
    /// memory limit (allocation failure)
    Memory,
}

#[derive(Serialize, Deserialize, Clone, Debug, PartialEq)]
pub struct Reply {
    pub end: End,
    pub steps: Vec<Out>,
    /// bytes written to the injected writer (lossy utf8)
    pub output: String,
    pub cpu_ms: u64,
    /// index of the step that was running when the child died (if it died)
    #[serde(default)]
    pub died_in: Option<usize>,
    /// doubles at the end of the job
    #[serde(default)]
    pub writer_calls: u64,
    #[serde(default)]
    pub clock_reads: u64,
    #[serde(default)]
    pub rng_created: u64,
    #[serde(default)]
    pub rng_draws: u64,
}

impl Reply {
    pub fn dead(end: End) -> Self {
        Reply {
            end,
            steps: vec![],
            output: String::new(),
            cpu_ms: 0,
            died_in: None,
            writer_calls: 0,
            clock_reads: 0,
            rng_created: 0,
            rng_draws: 0,
        }
    }
    pub fn step(&self, i: usize) -> &Out {
        self.steps.get(i).unwrap_or(&Out::Skipped)
    }
}
