mod direct;
mod dump;
mod expect;
mod gstd;
mod pool;
mod props;
mod proto;
mod reval;
mod rtype;
mod runner;
mod tape;
mod worker;

use runner::Tier;

fn usage() -> ! {
    eprintln!("usage: xv check <ID> [--tier quick|thorough] [--replay FILE] | xv worker | xv exec <job.json>");
    std::process::exit(2)
}

fn main() {
    let args: Vec<String> = std::env::args().collect();
    match args.get(1).map(|s| s.as_str()) {
        Some("worker") => worker::worker_main(),
        Some("exec") => {
            // debugging aid: run one job file and print the reply
            let text = std::fs::read_to_string(args.get(2).unwrap_or_else(|| usage())).expect("read job");
            let job: proto::Job = serde_json::from_str(&text).expect("parse job");
            let mut w = pool::Worker::spawn().expect("spawn");
            let r = w.exec(&job).expect("exec");
            println!("{}", serde_json::to_string_pretty(&r).unwrap());
        }
        Some("check") => {
            let id = args.get(2).unwrap_or_else(|| usage()).clone();
            let mut tier = match std::env::var("VERIF_TIER").as_deref() {
                Ok("thorough") => Tier::Thorough,
                _ => Tier::Quick,
            };
            let mut replay: Option<String> = None;
            let mut i = 3;
            while i < args.len() {
                match args[i].as_str() {
                    "--tier" => {
                        tier = if args.get(i + 1).map(|s| s.as_str()) == Some("thorough") {
                            Tier::Thorough
                        } else {
                            Tier::Quick
                        };
                        i += 1;
                    }
                    "--replay" => {
                        replay = args.get(i + 1).cloned();
                        i += 1;
                    }
                    _ => usage(),
                }
                i += 1;
            }
            let seed: u64 = std::env::var("VERIF_SEED")
                .ok()
                .and_then(|s| s.trim().parse::<i128>().ok())
                .map(|v| v as u64)
                .unwrap_or(0);
            let Some(prop) = props::by_id(&id) else {
                eprintln!("unknown property {id}");
                std::process::exit(2)
            };
            // a panic of the harness itself is harness trouble (exit 2), never a verdict
            let code = std::panic::catch_unwind(std::panic::AssertUnwindSafe(|| match replay {
                Some(p) => runner::run_replay(prop.as_ref(), &p),
                None => runner::run_check(prop.as_ref(), tier, seed),
            }))
            .unwrap_or(2);
            std::process::exit(code)
        }
        _ => usage(),
    }
}
