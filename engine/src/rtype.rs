//! R-type: an independent model of the documented static rules (assignability, least common
//! type, generic binding, overload ranking).  Written from the book and the property text, not
//! from src/xtype.rs.
use crate::gstd::Ty;
use std::collections::HashMap;

/// least common type of two types: `unknown` is the bottom type; containers, tuples and
/// compounds combine component-wise; everything else must be identical
pub fn lct(a: &Ty, b: &Ty) -> Option<Ty> {
    if a == b {
        return Some(a.clone());
    }
    let all = |x: &[Ty], y: &[Ty]| -> Option<Vec<Ty>> {
        if x.len() != y.len() {
            return None;
        }
        x.iter().zip(y).map(|(p, q)| lct(p, q)).collect()
    };
    match (a, b) {
        (Ty::Unknown, _) => Some(b.clone()),
        (_, Ty::Unknown) => Some(a.clone()),
        (Ty::Native(n0, a0), Ty::Native(n1, a1)) if n0 == n1 => Some(Ty::Native(n0.clone(), all(a0, a1)?)),
        (Ty::Compound(k0, n0, a0), Ty::Compound(k1, n1, a1)) if n0 == n1 && k0 == k1 => {
            Some(Ty::Compound(k0.clone(), n0.clone(), all(a0, a1)?))
        }
        (Ty::Tuple(a0), Ty::Tuple(a1)) => Some(Ty::Tuple(all(a0, a1)?)),
        _ => None,
    }
}

pub fn lct_all(ts: &[Ty]) -> Option<Ty> {
    let mut acc = Ty::Unknown;
    for t in ts {
        acc = lct(&acc, t)?;
    }
    Some(acc)
}

/// is a value of type `sup` assignable where `req` is required?  `bindable` are the generic
/// parameters of the callee / compound being instantiated (bound consistently in `b`); every
/// other generic variable is opaque and only fits itself.
pub fn assign(req: &Ty, sup: &Ty, bindable: &[String], b: &mut HashMap<String, Ty>) -> bool {
    let all = |x: &[Ty], y: &[Ty], b: &mut HashMap<String, Ty>| -> bool {
        x.len() == y.len() && x.iter().zip(y).all(|(p, q)| assign(p, q, bindable, b))
    };
    match (req, sup) {
        (_, Ty::Unknown) => true,
        (Ty::Var(n), _) if bindable.contains(n) => {
            let new = match b.get(n) {
                Some(t) => lct(t, sup),
                None => Some(sup.clone()),
            };
            match new {
                Some(t) => {
                    b.insert(n.clone(), t);
                    true
                }
                None => false,
            }
        }
        (Ty::Var(n), Ty::Var(m)) => n == m,
        (Ty::Native(n0, a0), Ty::Native(n1, a1)) => n0 == n1 && all(a0, a1, b),
        (Ty::Compound(k0, n0, a0), Ty::Compound(k1, n1, a1)) => k0 == k1 && n0 == n1 && all(a0, a1, b),
        (Ty::Tuple(a0), Ty::Tuple(a1)) => all(a0, a1, b),
        (Ty::Callable(p0, r0), Ty::Callable(p1, r1)) => all(p0, p1, b) && assign(r0, r1, bindable, b),
        (x, y) => x == y && matches!(x, Ty::Int | Ty::Float | Ty::Bool | Ty::Str),
    }
}

/// assignability with no bindable generics (let / return / field of a non-generic compound)
pub fn assignable(req: &Ty, sup: &Ty) -> bool {
    assign(req, sup, &[], &mut HashMap::new())
}

/// generic parameters left unbound by the arguments are the bottom type
pub fn close(t: &Ty, generics: &[String], b: &HashMap<String, Ty>) -> Ty {
    let mut full = b.clone();
    for g in generics {
        full.entry(g.clone()).or_insert(Ty::Unknown);
    }
    t.subst(&full)
}

pub fn has_unknown(t: &Ty) -> bool {
    match t {
        Ty::Unknown => true,
        Ty::Native(_, a) | Ty::Compound(_, _, a) | Ty::Tuple(a) => a.iter().any(has_unknown),
        Ty::Callable(p, r) => p.iter().any(has_unknown) || has_unknown(r),
        _ => false,
    }
}

pub fn vars_of(t: &Ty, out: &mut Vec<String>) {
    match t {
        Ty::Var(n) => {
            if !out.contains(n) {
                out.push(n.clone())
            }
        }
        Ty::Native(_, a) | Ty::Compound(_, _, a) | Ty::Tuple(a) => a.iter().for_each(|x| vars_of(x, out)),
        Ty::Callable(p, r) => {
            p.iter().for_each(|x| vars_of(x, out));
            vars_of(r, out)
        }
        _ => {}
    }
}

pub fn depth(t: &Ty) -> u32 {
    match t {
        Ty::Native(_, a) | Ty::Compound(_, _, a) | Ty::Tuple(a) => 1 + a.iter().map(depth).max().unwrap_or(0),
        Ty::Callable(p, r) => 1 + p.iter().map(depth).max().unwrap_or(0).max(depth(r)),
        _ => 0,
    }
}

pub fn outer(t: &Ty) -> String {
    match t {
        Ty::Native(n, _) => n.clone(),
        Ty::Compound(_, n, _) => n.clone(),
        Ty::Tuple(a) => format!("tuple{}", a.len()),
        Ty::Callable(p, _) => format!("fn{}", p.len()),
        Ty::Var(_) => "var".into(),
        Ty::Unknown => "unknown".into(),
        other => other.src(),
    }
}
